package main

// isodec: a deliberately dumb, fixed-offset ISO 9660 / Joliet reader driven by
// the field tables exported from spec/IsoFormat.tla.  It turns image bytes into
// an abstract "volume" (descriptors, path tables, directory records, file
// extents, a few zero-padding facts) for TLC to judge; it judges nothing itself
// and reports what it cannot decode as decodeErrors.

import (
	"fmt"
	"io"
	"strings"
	"unicode/utf16"
)

type isoReader struct {
	f     io.ReaderAt
	total int64
	errs  []string
}

func (r *isoReader) read(off int64, n int) []byte {
	b := make([]byte, n)
	if off < 0 || off+int64(n) > r.total {
		r.errs = append(r.errs, fmt.Sprintf("read [%d,+%d) outside image of %d bytes", off, n, r.total))
		return b
	}
	got, err := r.f.ReadAt(b, off)
	if got != n {
		r.errs = append(r.errs, fmt.Sprintf("short read at %d: %d of %d (%v)", off, got, n, err))
	}
	return b
}

func le(b []byte) int64 {
	var v int64
	for i := len(b) - 1; i >= 0; i-- {
		v = v<<8 | int64(b[i])
	}
	return v
}

func be(b []byte) int64 {
	var v int64
	for _, x := range b {
		v = v<<8 | int64(x)
	}
	return v
}

// decodeField returns the JSON value(s) of one field: both-endian fields yield
// name+"L" and name+"M".
func decodeFieldInto(m map[string]interface{}, f isoField, rec []byte, order string) {
	if f.Off+f.Width > len(rec) {
		m[f.Name] = -1
		return
	}
	b := rec[f.Off : f.Off+f.Width]
	switch f.Enc {
	case "u8":
		m[f.Name] = int64(b[0])
	case "lsbmsb16", "lsbmsb32":
		h := f.Width / 2
		m[f.Name+"L"] = pos(le(b[:h]))
		m[f.Name+"M"] = pos(be(b[h:]))
	case "le32", "le16":
		m[f.Name] = pos(le(b))
	case "be32", "be16":
		m[f.Name] = pos(be(b))
	case "ord32", "ord16":
		if order == "L" {
			m[f.Name] = pos(le(b))
		} else {
			m[f.Name] = pos(be(b))
		}
	case "str":
		m[f.Name] = sanitize(trimRight(string(b)))
	case "dec17":
		m[f.Name] = sanitize(string(b[:16]))
	case "rec7":
		m[f.Name] = []int64{int64(b[0]), int64(b[1]), int64(b[2]), int64(b[3]), int64(b[4]), int64(b[5]), int64(int8(b[6]))}
	}
}

func trimRight(s string) string {
	i := len(s)
	for i > 0 && (s[i-1] == ' ' || s[i-1] == 0) {
		i--
	}
	return s[:i]
}

func ucs2(b []byte) string {
	u := make([]uint16, len(b)/2)
	for i := range u {
		u[i] = uint16(b[2*i])<<8 | uint16(b[2*i+1])
	}
	return string(utf16.Decode(u))
}

func (r *isoReader) recordName(raw []byte, joliet bool) string {
	if len(raw) == 1 && raw[0] == 0 {
		return "."
	}
	if len(raw) == 1 && raw[0] == 1 {
		return ".."
	}
	if joliet {
		if len(raw)%2 != 0 {
			return "~oddUCS2:" + fmt.Sprintf("%x", raw)
		}
		return sanitize(ucs2(raw))
	}
	return sanitize(string(raw))
}

func allZero(b []byte) bool {
	for _, x := range b {
		if x != 0 {
			return false
		}
	}
	return true
}

type dirRef struct {
	path   []string
	lba    int64
	length int64
}

// decodeVolume walks the image.
func decodeVolume(f io.ReaderAt, total int64, reg *registry, ps3 bool) map[string]interface{} {
	t := isoTab
	r := &isoReader{f: f, total: total}
	sec := int64(t.Sector)
	vol := map[string]interface{}{"total": pos(total)}

	// ---- descriptors
	var descs []map[string]interface{}
	for i := 0; i < 8; i++ {
		off := (int64(t.FirstDesc) + int64(i)) * sec
		if off+sec > total {
			break
		}
		raw := r.read(off, int(sec))
		d := map[string]interface{}{"lba": int64(t.FirstDesc) + int64(i)}
		for _, fd := range t.VolDesc {
			if fd.Enc == "record" {
				d[fd.Name] = r.decodeRecord(raw[fd.Off:fd.Off+fd.Width], 0, false)
				continue
			}
			decodeFieldInto(d, fd, raw, "")
		}
		typ := d["type"].(int64)
		if typ == 255 {
			d = map[string]interface{}{"lba": d["lba"], "type": typ, "id": d["id"], "version": d["version"], "restZero": allZero(raw[7:])}
		} else {
			d["tailZero"] = allZero(raw[883:])
		}
		descs = append(descs, d)
		if typ == 255 {
			break
		}
	}
	vol["descs"] = descs

	// ---- system area / PS3 sectors
	sys := r.read(0, int(int64(t.FirstDesc)*sec))
	if ps3 {
		vol["ps3"] = map[string]interface{}{
			"regionCount": pos(be(sys[t.Ps3.RegionCount : t.Ps3.RegionCount+4])),
			"regionStart": pos(be(sys[t.Ps3.RegionFirst : t.Ps3.RegionFirst+4])),
			"regionEnd":   pos(be(sys[t.Ps3.RegionFirst+4 : t.Ps3.RegionFirst+8])),
			"consoleId":   sanitize(trimRight(string(sys[t.Ps3.ConsoleID : t.Ps3.ConsoleID+16]))),
			"productId":   sanitize(trimRight(string(sys[t.Ps3.ProductID : t.Ps3.ProductID+32]))),
			"restZero":    allZero(sys[2*sec:]),
		}
	} else {
		vol["ps3"] = map[string]interface{}{"regionCount": pos(0), "regionStart": pos(0), "regionEnd": pos(0), "consoleId": "", "productId": "", "restZero": allZero(sys)}
	}
	vol["systemAreaZero"] = allZero(sys)

	// ---- per hierarchy: path tables and directories
	var hier []map[string]interface{}
	for _, d := range descs {
		typ := d["type"].(int64)
		if typ != 1 && typ != 2 {
			continue
		}
		joliet := typ == 2
		h := map[string]interface{}{"joliet": joliet}
		ptSize := unpos(d["pathTableSizeL"].([2]int64))
		h["lTable"] = r.decodePathTable(unpos(d["lPathTable"].([2]int64))*sec, ptSize, "L", joliet)
		h["mTable"] = r.decodePathTable(unpos(d["mPathTable"].([2]int64))*sec, ptSize, "M", joliet)
		h["lTableLba"] = d["lPathTable"]
		h["mTableLba"] = d["mPathTable"]
		h["tableSize"] = pos(ptSize)
		root := d["rootRecord"].(map[string]interface{})
		dirs, files := r.walk(unpos(root["extentL"].([2]int64)), unpos(root["dataLenL"].([2]int64)), joliet, reg)
		h["dirs"] = dirs
		h["files"] = files
		hier = append(hier, h)
	}
	vol["hier"] = hier
	if r.errs == nil {
		r.errs = []string{}
	}
	if len(r.errs) > 20 {
		r.errs = r.errs[:20]
	}
	vol["decodeErrors"] = r.errs
	return vol
}

func (r *isoReader) decodeRecord(raw []byte, off int64, joliet bool) map[string]interface{} {
	t := isoTab
	m := map[string]interface{}{"off": off}
	for _, fd := range t.DirRecord {
		decodeFieldInto(m, fd, raw, "")
	}
	nl := int(m["nameLen"].(int64))
	if t.DirRecordName+nl <= len(raw) {
		m["name"] = r.recordName(raw[t.DirRecordName:t.DirRecordName+nl], joliet)
	} else {
		m["name"] = "~truncated"
	}
	return m
}

func (r *isoReader) decodePathTable(off, size int64, order string, joliet bool) []interface{} {
	t := isoTab
	out := []interface{}{}
	if size <= 0 || size > 8<<20 {
		if size != 0 {
			r.errs = append(r.errs, fmt.Sprintf("path table size %d", size))
		}
		return out
	}
	raw := r.read(off, int(size))
	p := 0
	for p+t.PathRecordName <= len(raw) {
		m := map[string]interface{}{"off": int64(p)}
		for _, fd := range t.PathRecord {
			decodeFieldInto(m, fd, raw[p:], order)
		}
		nl := int(m["nameLen"].(int64))
		if nl == 0 {
			r.errs = append(r.errs, fmt.Sprintf("path table record with empty name at %d", p))
			break
		}
		if p+t.PathRecordName+nl > len(raw) {
			r.errs = append(r.errs, fmt.Sprintf("path table record overruns the table at %d", p))
			break
		}
		m["name"] = r.recordName(raw[p+t.PathRecordName:p+t.PathRecordName+nl], joliet)
		out = append(out, m)
		p += t.PathRecordName + nl + nl%2
	}
	// what follows the table up to the sector end
	end := (size + int64(t.Sector) - 1) / int64(t.Sector) * int64(t.Sector)
	if end > size {
		if !allZero(r.read(off+size, int(end-size))) {
			r.errs = append(r.errs, fmt.Sprintf("non-zero bytes after the path table at %d", off+size))
		}
	}
	return out
}

// walk decodes every directory reachable from the root record and lists files.
func (r *isoReader) walk(rootLba, rootLen int64, joliet bool, reg *registry) ([]interface{}, []interface{}) {
	t := isoTab
	sec := int64(t.Sector)
	dirs := []interface{}{}
	files := []interface{}{}
	cum := map[string]int64{}
	seen := map[int64]bool{}
	queue := []dirRef{{path: []string{}, lba: rootLba, length: rootLen}}
	for len(queue) > 0 && len(dirs) < 100000 {
		d := queue[0]
		queue = queue[1:]
		if seen[d.lba] {
			r.errs = append(r.errs, fmt.Sprintf("directory extent %d reached twice", d.lba))
			continue
		}
		seen[d.lba] = true
		if d.length <= 0 || d.length > 64<<20 {
			r.errs = append(r.errs, fmt.Sprintf("directory %v length %d", d.path, d.length))
			continue
		}
		raw := r.read(d.lba*sec, int(d.length))
		recs := []interface{}{}
		tailZero := true
		p := int64(0)
		for p < d.length {
			l := int64(raw[p])
			if l == 0 {
				// no more records in this sector
				next := (p/sec + 1) * sec
				if next > d.length {
					next = d.length
				}
				if !allZero(raw[p:next]) {
					tailZero = false
				}
				p = next
				continue
			}
			if p+l > d.length || l < int64(t.DirRecordName)+1 {
				r.errs = append(r.errs, fmt.Sprintf("directory %v: record at %d with length %d overruns/underruns", d.path, p, l))
				break
			}
			rec := r.decodeRecord(raw[p:p+l], p, joliet)
			rec["straddles"] = p/sec != (p+l-1)/sec
			recs = append(recs, rec)
			name := rec["name"].(string)
			flags := rec["flags"].(int64)
			if name != "." && name != ".." {
				childPath := append(append([]string{}, d.path...), name)
				if flags&int64(t.FlagDir) != 0 {
					queue = append(queue, dirRef{path: childPath, lba: unpos(rec["extentL"].([2]int64)), length: unpos(rec["dataLenL"].([2]int64))})
				} else {
					// prev: total length of the earlier records of this name in this directory (the earlier extents of the file)
					key := strings.Join(childPath, "\x00")
					files = append(files, r.fileFacts(childPath, rec, reg, cum[key]))
					cum[key] += unpos(rec["dataLenL"].([2]int64))
				}
			}
			p += l
		}
		dirs = append(dirs, map[string]interface{}{"path": d.path, "lba": pos(d.lba), "len": pos(d.length), "recs": recs, "tailZero": tailZero})
	}
	return dirs, files
}

// fileFacts: one file record (one extent): where it is, how long, and windows of
// its content located in the harness's content sources.
func (r *isoReader) fileFacts(path []string, rec map[string]interface{}, reg *registry, prev int64) map[string]interface{} {
	t := isoTab
	sec := int64(t.Sector)
	lba := unpos(rec["extentL"].([2]int64))
	length := unpos(rec["dataLenL"].([2]int64))
	m := map[string]interface{}{"path": path, "lba": pos(lba), "len": pos(length), "multi": rec["flags"].(int64)&int64(t.FlagMulti) != 0}
	wins := []interface{}{}
	addWin := func(rel, n int64) {
		if rel < 0 {
			rel = 0
		}
		if rel+n > length {
			n = length - rel
		}
		if n <= 0 {
			return
		}
		b := r.read(lba*sec+rel, int(n))
		runs := reg.describe(b)
		alt := reg.matchAt(b, rel)
		if alt == nil {
			alt = []string{}
		}
		// windows too short to identify themselves: which sources show these bytes at offset prev+rel (TLC decides whether
		// that is the offset it expects)
		at := reg.matchAt(b, prev+rel)
		if at == nil {
			at = []string{}
		}
		wins = append(wins, map[string]interface{}{"rel": pos(rel), "len": n, "runs": runs, "alt": alt,
			"altAt": map[string]interface{}{"off": pos(prev + rel), "srcs": at}})
	}
	const W = 64 * 1024
	if length <= 4*W {
		addWin(0, length)
	} else {
		addWin(0, W)
		addWin(length/2-W/2, W)
		addWin(length-W, W)
	}
	m["wins"] = wins
	// zero fill up to the sector end
	pad := (sec - length%sec) % sec
	m["padZero"] = true
	if pad > 0 && lba*sec+length+pad <= r.total {
		m["padZero"] = allZero(r.read(lba*sec+length, int(pad)))
	}
	return m
}
