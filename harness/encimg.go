package main

import "fmt"

// encSpec describes an encrypted (redump / 3k3y) image to synthesise.
type encSpec struct {
	Kind string `json:"kind"`
}

func (w *world) writeEncImage(fp string, n nodeJ) error {
	return fmt.Errorf("encrypted images: not built yet")
}
