package main

// Synthetic encrypted PS3 disc images (redump / 3k3y) and the reference
// transformations used to classify what a view returns.
//
// Trusted base: crypto/aes and a hand-written CBC (checked against the NIST
// SP 800-38A F.2.1 vector at start-up).  Which sectors are encrypted, which
// key applies, what must read as zero: none of that is decided here - the
// harness only reports, segment by segment, which candidate the returned
// bytes equal.

import (
	"bytes"
	"crypto/aes"
	"encoding/binary"
	"encoding/hex"
	"fmt"
	"os"
)

const encSector = 2048

// fixed key / IV that turn a disc key ("data1") into the image key (public constants of the format)
var (
	encKeyData1 = []byte{0x38, 0x0b, 0xcf, 0x0b, 0x53, 0x45, 0x5b, 0x3c, 0x78, 0x17, 0xab, 0x4f, 0xa3, 0xba, 0x90, 0xed}
	encIvData1  = []byte{0x69, 0x47, 0x47, 0x72, 0xaf, 0x6f, 0xda, 0xb3, 0x42, 0x74, 0x3a, 0xef, 0xaa, 0x18, 0x62, 0x87}
	wm3k3yEnc   = []byte{0x44, 0x6E, 0x63, 0x72, 0x79, 0x70, 0x74, 0x65, 0x64, 0x20, 0x33, 0x4B, 0x20, 0x42, 0x4C, 0x44}
	wm3k3yDec   = []byte{0x45, 0x6E, 0x63, 0x72, 0x79, 0x70, 0x74, 0x65, 0x64, 0x20, 0x33, 0x4B, 0x20, 0x42, 0x4C, 0x44}
)

func cbcEncrypt(key, iv, data []byte) []byte {
	blk, err := aes.NewCipher(key)
	if err != nil {
		panic(err)
	}
	out := make([]byte, len(data))
	prev := append([]byte{}, iv...)
	for i := 0; i+16 <= len(data); i += 16 {
		var x [16]byte
		for j := 0; j < 16; j++ {
			x[j] = data[i+j] ^ prev[j]
		}
		blk.Encrypt(out[i:i+16], x[:])
		prev = out[i : i+16]
	}
	return out
}

func cbcDecrypt(key, iv, data []byte) []byte {
	blk, err := aes.NewCipher(key)
	if err != nil {
		panic(err)
	}
	out := make([]byte, len(data))
	prev := append([]byte{}, iv...)
	for i := 0; i+16 <= len(data); i += 16 {
		var x [16]byte
		blk.Decrypt(x[:], data[i:i+16])
		for j := 0; j < 16; j++ {
			out[i+j] = x[j] ^ prev[j]
		}
		prev = data[i : i+16]
	}
	return out
}

func init() {
	// NIST SP 800-38A F.2.1 CBC-AES128.Encrypt, first two blocks
	key, _ := hex.DecodeString("2b7e151628aed2a6abf7158809cf4f3c")
	iv, _ := hex.DecodeString("000102030405060708090a0b0c0d0e0f")
	pt, _ := hex.DecodeString("6bc1bee22e409f96e93d7e117393172aae2d8a571e03ac9c9eb76fac45af8e51")
	ct, _ := hex.DecodeString("7649abac8119b246cee98e9b12e9197d5086cb9b507219ee95db113a917678b2")
	if !bytes.Equal(cbcEncrypt(key, iv, pt), ct) || !bytes.Equal(cbcDecrypt(key, iv, ct), pt) {
		panic("reference AES-CBC does not reproduce the NIST vector")
	}
}

func imageKey(discKey []byte) []byte { return cbcEncrypt(encKeyData1, encIvData1, discKey) }

func sectorIV(sector int64) []byte {
	iv := make([]byte, 16)
	binary.BigEndian.PutUint32(iv[12:], uint32(sector))
	return iv
}

// encSpec: how to synthesise an image file.
type encSpec struct {
	Kind      string     `json:"kind"`              // redump | 3k3y-enc | 3k3y-dec | plain
	Key       string     `json:"key"`               // hex disc key the encrypted sectors are encrypted under
	Regions   [][2]int64 `json:"regions"`           // the table written to sector 0: plain regions <first, last sector>
	RawCount  *int64     `json:"rawCount"`          // override of the count field (malformed tables)
	Sectors   int64      `json:"sectors"`           // image length in sectors
	ExtraLen  int64      `json:"extraLen"`          // additional bytes after the last full sector
	EncFrom   [][2]int64 `json:"encFrom,omitempty"` // sector ranges actually stored encrypted (default: gaps between Regions)
	Embedded  string     `json:"embedded"`          // 3k3y: hex key stored at 0xF80 (default: Key)
	PlainName string     `json:"plainName"`         // name of the plaintext source
}

type encImage struct {
	spec  encSpec
	plain []byte // the disc as it is meant to be read (with region table and 3k3y area as stored)
	raw   []byte // the file on disk
	key   []byte
}

func buildEncImage(sp encSpec) (*encImage, error) {
	size := sp.Sectors*encSector + sp.ExtraLen
	if size <= 0 || size > 64<<20 {
		return nil, fmt.Errorf("image size %d", size)
	}
	src := &patSource{name: sp.PlainName, id: srcID(sp.PlainName), size: size}
	plain := make([]byte, size)
	src.ReadAt(plain, 0)
	// region table
	hdr := make([]byte, 8+8*len(sp.Regions))
	cnt := int64(len(sp.Regions))
	if sp.RawCount != nil {
		cnt = *sp.RawCount
	}
	binary.BigEndian.PutUint32(hdr[0:], uint32(cnt))
	for i, r := range sp.Regions {
		binary.BigEndian.PutUint32(hdr[8+8*i:], uint32(r[0]))
		binary.BigEndian.PutUint32(hdr[12+8*i:], uint32(r[1]))
	}
	copy(plain, hdr)
	key, err := hex.DecodeString(sp.Key)
	if err != nil || (len(key) != 16 && sp.Kind != "plain") {
		return nil, fmt.Errorf("bad key %q", sp.Key)
	}
	if sp.Kind == "3k3y-enc" || sp.Kind == "3k3y-dec" {
		if size >= 0xF80+16 {
			wm := wm3k3yEnc
			if sp.Kind == "3k3y-dec" {
				wm = wm3k3yDec
			}
			copy(plain[0xF70:], wm)
			emb := key
			if sp.Embedded != "" {
				emb, _ = hex.DecodeString(sp.Embedded)
			}
			copy(plain[0xF80:], emb)
		}
	}
	raw := append([]byte{}, plain...)
	enc := sp.EncFrom
	if enc == nil && sp.Kind != "plain" && sp.Kind != "3k3y-dec" {
		// (region bounds are first and last sector, inclusive: what lies strictly between two regions is encrypted)
		for i := 1; i < len(sp.Regions); i++ {
			enc = append(enc, [2]int64{sp.Regions[i-1][1] + 1, sp.Regions[i][0]})
		}
	}
	if len(key) == 16 {
		ik := imageKey(key)
		for _, r := range enc {
			for s := r[0]; s < r[1] && (s+1)*encSector <= size; s++ {
				copy(raw[s*encSector:], cbcEncrypt(ik, sectorIV(s), plain[s*encSector:(s+1)*encSector]))
			}
		}
	}
	return &encImage{spec: sp, plain: plain, raw: raw, key: key}, nil
}

func (w *world) writeEncImage(fp string, n nodeJ) error {
	img, err := buildEncImage(*n.Enc)
	if err != nil {
		return err
	}
	w.reg.add(&memSource{name: n.Cid, data: img.raw})
	w.reg.add(&memSource{name: n.Enc.PlainName, data: img.plain})
	masked := append([]byte{}, img.plain...)
	for i := 0xF70; i < 0x1070 && i < len(masked); i++ {
		masked[i] = 0
	}
	w.reg.add(&memSource{name: n.Enc.PlainName + "~masked", data: masked})
	rawMasked := append([]byte{}, img.raw...)
	for i := 0xF70; i < 0x1070 && i < len(rawMasked); i++ {
		rawMasked[i] = 0
	}
	w.reg.add(&memSource{name: n.Cid + "~masked", data: rawMasked})
	if w.encImages == nil {
		w.encImages = map[string]*encImage{}
	}
	w.encImages[fp] = img
	return os.WriteFile(fp, img.raw, 0o644)
}

// classify describes got (claimed to be the bytes [at, at+len(got)) of a view of
// raw) segment by segment: segments end at sector boundaries and at the given
// cuts.  Classes: "raw" (= stored bytes), "zero", "dec:<keyname>" (= sector-wise
// AES-CBC decryption of the stored bytes under that candidate key).  A segment
// may carry several classes when candidates coincide; none = unexplained.
func classify(raw []byte, at int64, got []byte, cuts []int64, keys map[string][]byte) []map[string]interface{} {
	out := []map[string]interface{}{}
	end := at + int64(len(got))
	bset := map[int64]bool{}
	for s := at / encSector * encSector; s <= end; s += encSector {
		bset[s] = true
	}
	for _, c := range cuts {
		bset[c] = true
	}
	pos0 := at
	for pos0 < end {
		next := end
		for b := range bset {
			if b > pos0 && b < next {
				next = b
			}
		}
		seg := got[pos0-at : next-at]
		classes := []string{}
		if next <= int64(len(raw)) {
			if bytes.Equal(seg, raw[pos0:next]) {
				classes = append(classes, "raw")
			}
			if allZero(seg) {
				classes = append(classes, "zero")
			}
			s := pos0 / encSector
			if (s+1)*encSector <= int64(len(raw)) {
				for name, k := range keys {
					dec := cbcDecrypt(imageKey(k), sectorIV(s), raw[s*encSector:(s+1)*encSector])
					if bytes.Equal(seg, dec[pos0-s*encSector:next-s*encSector]) {
						classes = append(classes, "dec:"+name)
					}
				}
			}
		}
		// whole: the sector this segment lies in is stored completely (an image that ends inside a sector has one that is not)
		out = append(out, map[string]interface{}{"from": pos(pos0), "to": pos(next), "sector": pos0 / encSector, "classes": classes,
			"whole": (pos0/encSector+1)*encSector <= int64(len(raw))})
		pos0 = next
	}
	return out
}
