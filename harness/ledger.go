package main

// ledgerFs: an afero.Fs decorator that keeps an open/close ledger of every
// afero.File it hands out, logs every operation with its path, and can inject
// faults (an error, or a short read) at the k-th operation.
//
// It is placed *below* the server's own fs.FS (which is given to the exported
// handler.Handler.Fs field) and above the BasePathFs, or - for C01 - below the
// BasePathFs where it sees real absolute paths.

import (
	"errors"
	"fmt"
	"io"
	"io/fs"
	"os"
	"sync"
	"time"

	"github.com/spf13/afero"
)

type fsOp struct {
	Seq   int    `json:"seq"`
	Op    string `json:"op"`
	Path  string `json:"path"`
	Ok    bool   `json:"ok"`
	Owner int    `json:"owner"`
	Fault string `json:"fault,omitempty"`
}

type faultPlan struct {
	At    map[int]string // op index -> "err" | "short"
	Every string         // "" or op name to fail always
}

type ledgerFs struct {
	afero.Fs
	mu     sync.Mutex
	seq    int
	open   map[*ledgerFile]struct{}
	ops    []fsOp
	owner  int // connection whose request is in flight (-1: unknown/concurrent)
	faults *faultPlan
	logOps bool
	// counters
	opened, closed int
	faultsApplied  int
}

func newLedgerFs(inner afero.Fs) *ledgerFs {
	return &ledgerFs{Fs: inner, open: map[*ledgerFile]struct{}{}, owner: -1}
}

var errInjected = errors.New("injected I/O error")

// step registers one operation and returns the fault to apply ("" = none).
func (l *ledgerFs) step(op, path string) (int, string) {
	l.mu.Lock()
	defer l.mu.Unlock()
	k := l.seq
	l.seq++
	f := ""
	if l.faults != nil {
		if v, ok := l.faults.At[k]; ok {
			f = v
			l.faultsApplied++
		}
	}
	if l.logOps {
		l.ops = append(l.ops, fsOp{Seq: k, Op: op, Path: path, Ok: true, Owner: l.owner, Fault: f})
	}
	return k, f
}

func (l *ledgerFs) fail(k int) {
	if !l.logOps {
		return
	}
	l.mu.Lock()
	for i := len(l.ops) - 1; i >= 0; i-- {
		if l.ops[i].Seq == k {
			l.ops[i].Ok = false
			break
		}
	}
	l.mu.Unlock()
}

func (l *ledgerFs) SetOwner(o int) {
	l.mu.Lock()
	l.owner = o
	l.mu.Unlock()
}

func (l *ledgerFs) OpenCount(owner int) int {
	l.mu.Lock()
	defer l.mu.Unlock()
	if owner < 0 {
		return len(l.open)
	}
	n := 0
	for f := range l.open {
		if f.owner == owner {
			n++
		}
	}
	return n
}

func (l *ledgerFs) OpenPaths() []string {
	l.mu.Lock()
	defer l.mu.Unlock()
	var r []string
	for f := range l.open {
		r = append(r, fmt.Sprintf("%s(owner %d)", f.path, f.owner))
	}
	return r
}

func (l *ledgerFs) TakeOps() []fsOp {
	l.mu.Lock()
	defer l.mu.Unlock()
	o := l.ops
	l.ops = nil
	return o
}

func (l *ledgerFs) FaultsApplied() int {
	l.mu.Lock()
	defer l.mu.Unlock()
	return l.faultsApplied
}

func (l *ledgerFs) OpCount() int {
	l.mu.Lock()
	defer l.mu.Unlock()
	return l.seq
}

func (l *ledgerFs) wrap(f afero.File, path string) afero.File {
	lf := &ledgerFile{File: f, l: l, path: path}
	l.mu.Lock()
	lf.owner = l.owner
	l.open[lf] = struct{}{}
	l.opened++
	l.mu.Unlock()
	return lf
}

func (l *ledgerFs) Open(name string) (afero.File, error) {
	k, flt := l.step("open", name)
	if flt == "err" {
		l.fail(k)
		return nil, errInjected
	}
	f, err := l.Fs.Open(name)
	if err != nil {
		l.fail(k)
		return nil, err
	}
	return l.wrap(f, name), nil
}

func (l *ledgerFs) OpenFile(name string, flag int, perm os.FileMode) (afero.File, error) {
	op := "openfile"
	if flag&(os.O_WRONLY|os.O_RDWR|os.O_CREATE|os.O_TRUNC|os.O_APPEND) != 0 {
		op = "openfile-w"
	}
	k, flt := l.step(op, name)
	if flt == "err" {
		l.fail(k)
		return nil, errInjected
	}
	f, err := l.Fs.OpenFile(name, flag, perm)
	if err != nil {
		l.fail(k)
		return nil, err
	}
	return l.wrap(f, name), nil
}

func (l *ledgerFs) Create(name string) (afero.File, error) {
	k, flt := l.step("create", name)
	if flt == "err" {
		l.fail(k)
		return nil, errInjected
	}
	f, err := l.Fs.Create(name)
	if err != nil {
		l.fail(k)
		return nil, err
	}
	return l.wrap(f, name), nil
}

func (l *ledgerFs) Stat(name string) (os.FileInfo, error) {
	k, flt := l.step("stat", name)
	if flt == "err" {
		l.fail(k)
		return nil, errInjected
	}
	fi, err := l.Fs.Stat(name)
	if err != nil {
		l.fail(k)
	}
	return fi, err
}

func (l *ledgerFs) Remove(name string) error {
	k, flt := l.step("remove", name)
	if flt == "err" {
		l.fail(k)
		return errInjected
	}
	err := l.Fs.Remove(name)
	if err != nil {
		l.fail(k)
	}
	return err
}

func (l *ledgerFs) RemoveAll(name string) error {
	k, flt := l.step("removeall", name)
	if flt == "err" {
		l.fail(k)
		return errInjected
	}
	err := l.Fs.RemoveAll(name)
	if err != nil {
		l.fail(k)
	}
	return err
}

func (l *ledgerFs) Mkdir(name string, perm os.FileMode) error {
	k, flt := l.step("mkdir", name)
	if flt == "err" {
		l.fail(k)
		return errInjected
	}
	err := l.Fs.Mkdir(name, perm)
	if err != nil {
		l.fail(k)
	}
	return err
}

func (l *ledgerFs) MkdirAll(name string, perm os.FileMode) error {
	k, flt := l.step("mkdirall", name)
	if flt == "err" {
		l.fail(k)
		return errInjected
	}
	err := l.Fs.MkdirAll(name, perm)
	if err != nil {
		l.fail(k)
	}
	return err
}

func (l *ledgerFs) Rename(o, n string) error {
	k, flt := l.step("rename", o+" -> "+n)
	if flt == "err" {
		l.fail(k)
		return errInjected
	}
	err := l.Fs.Rename(o, n)
	if err != nil {
		l.fail(k)
	}
	return err
}

func (l *ledgerFs) Chmod(name string, mode os.FileMode) error {
	l.step("chmod", name)
	return l.Fs.Chmod(name, mode)
}

func (l *ledgerFs) Chtimes(name string, a, m time.Time) error {
	l.step("chtimes", name)
	return l.Fs.Chtimes(name, a, m)
}

func (l *ledgerFs) Name() string { return "ledgerFs" }

// LstatIfPossible keeps afero.Lstater working through the decorator.
func (l *ledgerFs) LstatIfPossible(name string) (os.FileInfo, bool, error) {
	k, flt := l.step("lstat", name)
	if flt == "err" {
		l.fail(k)
		return nil, false, errInjected
	}
	if ls, ok := l.Fs.(afero.Lstater); ok {
		fi, b, err := ls.LstatIfPossible(name)
		if err != nil {
			l.fail(k)
		}
		return fi, b, err
	}
	fi, err := l.Fs.Stat(name)
	if err != nil {
		l.fail(k)
	}
	return fi, false, err
}

type ledgerFile struct {
	afero.File
	l      *ledgerFs
	path   string
	owner  int
	closed bool
}

func (f *ledgerFile) Close() error {
	f.l.step("close", f.path)
	f.l.mu.Lock()
	if !f.closed {
		f.closed = true
		delete(f.l.open, f)
		f.l.closed++
	}
	f.l.mu.Unlock()
	return f.File.Close()
}

func (f *ledgerFile) Read(p []byte) (int, error) {
	k, flt := f.l.step("read", f.path)
	switch flt {
	case "err":
		f.l.fail(k)
		return 0, errInjected
	case "short":
		if len(p) > 1 {
			p = p[:(len(p)+1)/2]
		}
	case "eof":
		// the file ends here (it shrank after it was opened): half of what was asked for, then end of file
		if len(p) > 1 {
			n, _ := f.File.Read(p[:len(p)/2])
			return n, io.EOF
		}
		return 0, io.EOF
	}
	n, err := f.File.Read(p)
	return n, err
}

func (f *ledgerFile) ReadAt(p []byte, off int64) (int, error) {
	k, flt := f.l.step("readat", f.path)
	switch flt {
	case "err":
		f.l.fail(k)
		return 0, errInjected
	case "short":
		// io.ReaderAt may not return short without an error; a short read is reported with one.
		if len(p) > 1 {
			n, _ := f.File.ReadAt(p[:len(p)/2], off)
			return n, errInjected
		}
	case "eof":
		if len(p) > 1 {
			n, _ := f.File.ReadAt(p[:len(p)/2], off)
			return n, io.EOF
		}
		return 0, io.EOF
	}
	return f.File.ReadAt(p, off)
}

func (f *ledgerFile) Seek(off int64, whence int) (int64, error) {
	k, flt := f.l.step("seek", f.path)
	if flt == "err" {
		f.l.fail(k)
		return 0, errInjected
	}
	return f.File.Seek(off, whence)
}

func (f *ledgerFile) Write(p []byte) (int, error) {
	k, flt := f.l.step("write", f.path)
	switch flt {
	case "err":
		f.l.fail(k)
		return 0, errInjected
	case "short":
		if len(p) > 1 {
			n, _ := f.File.Write(p[:len(p)/2])
			return n, errInjected
		}
	}
	return f.File.Write(p)
}

func (f *ledgerFile) Stat() (os.FileInfo, error) {
	k, flt := f.l.step("fstat", f.path)
	if flt == "err" {
		f.l.fail(k)
		return nil, errInjected
	}
	return f.File.Stat()
}

func (f *ledgerFile) Readdir(n int) ([]os.FileInfo, error) {
	k, flt := f.l.step("readdir", f.path)
	if flt == "err" {
		f.l.fail(k)
		return nil, errInjected
	}
	return f.File.Readdir(n)
}

func (f *ledgerFile) Readdirnames(n int) ([]string, error) {
	k, flt := f.l.step("readdirnames", f.path)
	if flt == "err" {
		f.l.fail(k)
		return nil, errInjected
	}
	return f.File.Readdirnames(n)
}

var _ fs.FileInfo = (os.FileInfo)(nil)
