package main

// `verifh viso`: library-level driver for file-like views (fs.VirtualISO; later
// fs.EncryptedISO / fs.ISO3k3y): open the view, obtain the canonical image by
// one sequential read on a separate instance, then perform scripted
// Read/Seek/ReadAt calls and record what each returned.

import (
	"bufio"
	"bytes"
	"encoding/json"
	"errors"
	"fmt"
	"io"
	"os"
	"path/filepath"
	"sort"
	"strings"
	"sync"
	"syscall"
	"time"
	"unicode/utf16"

	"github.com/spf13/afero"

	pfs "github.com/xakep666/ps3netsrv-go/pkg/fs"
)

type opJ struct {
	Op     string `json:"op"` // read | readat | seek
	N      int    `json:"n,omitempty"`
	Off    int64  `json:"off,omitempty"`
	Whence int    `json:"whence,omitempty"`
	Under  string `json:"under,omitempty"` // enc: the underlying file's next ReadAt ends early: "eof" (half + io.EOF) | "err" (half + error)
}

type visoCaseJ struct {
	Name       string   `json:"name"`
	Nodes      []nodeJ  `json:"nodes"`
	Dir        []string `json:"dir"` // directory to turn into an image (relative to the root)
	Ps3        bool     `json:"ps3,omitempty"`
	OsFs       bool     `json:"osfs,omitempty"` // open with OsFs + absolute path (as make-iso does)
	Ops        []opJ    `json:"ops"`
	Fresh      bool     `json:"fresh,omitempty"`      // run every op on a freshly opened instance
	Nofile     int      `json:"nofile,omitempty"`     // run the case with at most this many open file descriptors more than are open now (RLIMIT_NOFILE)
	Tmpfs      bool     `json:"tmpfs,omitempty"`      // build the tree under /dev/shm (if there is one)
	MemLimitMB int      `json:"memLimitMB,omitempty"` // RLIMIT_AS = current size + this much while the case runs

	Decode    bool     `json:"decode,omitempty"`    // emit a Volume event: the image as decoded by isodec + the tree as walked by the harness
	TitleID   []string `json:"titleId,omitempty"`   // PS3 mode: the TITLE_ID the script put into PARAM.SFO
	NoCanon   bool     `json:"noCanon,omitempty"`   // do not read the whole image sequentially (huge images)
	Reopen    int      `json:"reopen,omitempty"`    // C18: open the image this many more times and compare (masked) with the first
	SleepMs   int      `json:"sleepMs,omitempty"`   // C18: pause before the re-opens
	Parallel  bool     `json:"parallel,omitempty"`  // C18: do the re-opens concurrently
	Spellings []string `json:"spellings,omitempty"` // C18: successive opens name the directory differently (cyclically): "", slash, dot, updown, dslash
	opens     int
	Burst     int      `json:"burst,omitempty"`   // C18, parallel: every re-opener first opens and closes the image this many times (all start together)
	Between   []string `json:"between,omitempty"` // C18: before every re-open, open, read and close an image of this other directory (and of Dir in the other mode)
}

type visoScriptJ struct {
	Cases []visoCaseJ `json:"cases"`
}

func errClass(err error) string {
	switch {
	case err == nil:
		return "nil"
	case errors.Is(err, io.EOF):
		return "EOF"
	default:
		return "other"
	}
}

func cmdViso(args []string) error {
	var scriptPath, outPath string
	for i := 0; i < len(args)-1; i += 2 {
		switch args[i] {
		case "-script":
			scriptPath = args[i+1]
		case "-out":
			outPath = args[i+1]
		case "-iso":
			if err := loadIso(args[i+1]); err != nil {
				return err
			}
		}
	}
	raw, err := os.ReadFile(scriptPath)
	if err != nil {
		return err
	}
	var sc visoScriptJ
	if err := json.Unmarshal(raw, &sc); err != nil {
		return err
	}
	of, err := os.Create(outPath)
	if err != nil {
		return err
	}
	defer of.Close()
	em := &emitter{w: bufio.NewWriterSize(of, 1<<20)}
	defer em.w.Flush()
	for i := range sc.Cases {
		if err := runVisoCase(&sc.Cases[i], em, i); err != nil {
			return fmt.Errorf("case %d (%s): %w", i, sc.Cases[i].Name, err)
		}
	}
	return nil
}

type fileLike interface {
	io.Reader
	io.ReaderAt
	io.Seeker
	io.Closer
	Stat() (os.FileInfo, error)
}

func openViso(root string, c *visoCaseJ) (fileLike, error) {
	// spell: how the directory is named on this open ("" plain; "slash" trailing separator; "dot" "/." appended; "updown" "/x/.." appended)
	sp := ""
	if len(c.Spellings) > 0 {
		sp = c.Spellings[c.opens%len(c.Spellings)]
		c.opens++
	}
	suffix := map[string]string{"": "", "slash": "/", "dot": "/.", "updown": "/zz/..", "dslash": "//"}[sp]
	if c.OsFs {
		return pfs.NewVirtualISO(afero.NewOsFs(), filepath.Join(append([]string{root}, c.Dir...)...)+suffix, c.Ps3)
	}
	return pfs.NewVirtualISO(afero.NewBasePathFs(afero.NewOsFs(), root), "/"+filepath.Join(c.Dir...)+suffix, c.Ps3)
}

// sequentialImage reads the whole view with an aligned 1 MiB buffer.
func sequentialImage(f fileLike, limit int64) (data []byte, err error) {
	defer func() {
		if r := recover(); r != nil {
			err = fmt.Errorf("panic: %v", r)
		}
	}()
	buf := make([]byte, 1<<20)
	for {
		n, e := f.Read(buf)
		data = append(data, buf[:n]...)
		if e == io.EOF {
			return data, nil
		}
		if e != nil {
			return data, e
		}
		if n == 0 {
			return data, fmt.Errorf("no progress at %d", len(data))
		}
		if int64(len(data)) > limit {
			return data, fmt.Errorf("image longer than %d", limit)
		}
	}
}

func runVisoCase(c *visoCaseJ, em *emitter, index int) error {
	tmpParent := ""
	if c.Tmpfs {
		// a memory file system takes sparse files far larger than ext4 does (2^62 bytes)
		if st, err := os.Stat("/dev/shm"); err == nil && st.IsDir() {
			tmpParent = "/dev/shm"
		}
	}
	if c.MemLimitMB > 0 {
		// the case must not need more than this much additional address space (a runaway allocation ends the process:
		// reported as a crash of this case, instead of taking the machine down)
		var old syscall.Rlimit
		if err := syscall.Getrlimit(syscall.RLIMIT_AS, &old); err == nil {
			var vm uint64
			if b, err := os.ReadFile("/proc/self/statm"); err == nil {
				fmt.Sscan(string(b), &vm)
				vm *= uint64(os.Getpagesize())
			}
			lim := old
			lim.Cur = vm + uint64(c.MemLimitMB)<<20
			if (old.Max == ^uint64(0) || lim.Cur < old.Max) && syscall.Setrlimit(syscall.RLIMIT_AS, &lim) == nil {
				defer syscall.Setrlimit(syscall.RLIMIT_AS, &old)
			}
		}
	}
	base, err := os.MkdirTemp(tmpParent, "vv-")
	if err != nil {
		return err
	}
	defer os.RemoveAll(base)
	base, _ = filepath.EvalSymlinks(base)
	reg := newRegistry()
	w := newWorld(base, "g", reg)
	if err := w.materialise(c.Nodes, false); err != nil {
		return err
	}
	open := func() (fileLike, error) { return openViso(w.root, c) }
	if c.Nofile > 0 {
		// a process may hold far fewer descriptors than a tree has files (1024 is a common limit)
		var old syscall.Rlimit
		if err := syscall.Getrlimit(syscall.RLIMIT_NOFILE, &old); err == nil {
			inUse := 0
			if ents, err := os.ReadDir("/proc/self/fd"); err == nil {
				inUse = len(ents)
			}
			lim := old
			lim.Cur = uint64(inUse + c.Nofile)
			if lim.Cur < old.Cur {
				if err := syscall.Setrlimit(syscall.RLIMIT_NOFILE, &lim); err == nil {
					defer syscall.Setrlimit(syscall.RLIMIT_NOFILE, &old)
				}
			}
		}
	}

	ev := map[string]interface{}{"ev": "Open", "name": c.Name, "index": index, "ps3": c.Ps3, "huge": false}
	// more data than the model checker's 32-bit sector numbers can express (about 4 TiB): such an image is not decoded;
	// TLC only sees whether it was refused or announced at least that much
	var dataTotal int64
	filepath.Walk(filepath.Join(append([]string{w.root}, c.Dir...)...), func(_ string, fi os.FileInfo, err error) error {
		if err == nil && fi.Mode().IsRegular() {
			dataTotal += fi.Size()
		}
		return nil
	})
	if dataTotal >= (1<<31-1<<21)*2048 {
		ev["huge"] = true
		ref, err := open()
		if err != nil {
			ev["opened"] = false
			ev["err"] = err.Error()
			ev["tree"] = []interface{}{}
			em.emit(ev)
			return nil
		}
		st, _ := ref.Stat()
		ref.Close()
		ev["opened"], ev["announced"], ev["total"], ev["canon"], ev["bounds"] = true, pos(st.Size()), pos(st.Size()), "ok", []int64{}
		ev["rawAnnounced"] = fmt.Sprint(st.Size())
		em.emit(ev)
		return nil
	}
	ref, err := open()
	if err != nil {
		ev["opened"] = false
		ev["err"] = err.Error()
		ev["tree"] = treeFacts(filepath.Join(append([]string{w.root}, c.Dir...)...), w)
		em.emit(ev)
		return nil
	}
	ev["opened"] = true
	st, _ := ref.Stat()
	announced := st.Size()
	var canon []byte
	var cerr error
	var firstVol map[string]interface{}
	if c.Decode {
		// decode the very first instance: whatever an earlier image left behind in recycled memory shows here
		firstVol = decodeVolume(ref, announced, reg, c.Ps3)
	}
	if !c.NoCanon {
		canon, cerr = sequentialImage(ref, announced+(64<<20))
	}
	ref.Close()
	ev["announced"] = pos(announced)
	ev["total"] = pos(int64(len(canon)))
	if c.NoCanon {
		ev["total"] = pos(announced)
	}
	ev["canon"] = "ok"
	if cerr != nil {
		ev["canon"] = "failed: " + cerr.Error()
	}
	// structural boundaries seen in the image: starts/ends of member files, their padded ends
	bset := map[int64]bool{0: true, int64(len(canon)): true}
	var lastEnd int64
	for _, r := range reg.describe(canon) {
		if len(r.Srcs) == 0 {
			continue
		}
		s, e := unpos(r.Off), int64(0)
		_ = s
		_ = e
	}
	off := int64(0)
	for _, r := range reg.describe(canon) {
		if len(r.Srcs) > 0 {
			bset[off] = true
			bset[off+int64(r.Len)] = true
			padded := (off + int64(r.Len) + 2047) / 2048 * 2048
			bset[padded] = true
			if padded > lastEnd {
				lastEnd = padded
			}
		}
		off += int64(r.Len)
	}
	if lastEnd > 0 {
		bset[lastEnd] = true
	}
	var bounds []int64
	for b := range bset {
		bounds = append(bounds, b)
	}
	sort.Slice(bounds, func(i, j int) bool { return bounds[i] < bounds[j] })
	ev["bounds"] = bounds
	em.emit(ev)
	if cerr != nil {
		return nil
	}
	if c.Decode {
		tf := treeFacts(filepath.Join(append([]string{w.root}, c.Dir...)...), w)
		em.emit(map[string]interface{}{"ev": "Volume", "name": c.Name, "ps3": c.Ps3, "titleId": c.TitleID, "vol": firstVol, "tree": tf})
		g, err := open()
		if err != nil {
			return err
		}
		vol := decodeVolume(g, announced, reg, c.Ps3)
		g.Close()
		em.emit(map[string]interface{}{"ev": "Volume", "name": c.Name, "ps3": c.Ps3, "titleId": c.TitleID, "vol": vol, "tree": tf})
	}
	if c.Reopen > 0 {
		if err := reopenCompare(c, open, canon, announced, em, w.root); err != nil {
			return err
		}
	}

	var f fileLike
	tellOf := func() [2]int64 {
		t, err := f.Seek(0, io.SeekCurrent)
		if err != nil {
			return pos(-1)
		}
		return pos(t)
	}
	last := int64(0) // cursor as last observed; positional reads are not followed by a Seek (no observer effect)
	for i, op := range c.Ops {
		if f == nil || c.Fresh {
			if f != nil {
				f.Close()
			}
			f, err = open()
			if err != nil {
				return err
			}
			last = 0
		}
		before := last
		r := map[string]interface{}{"ev": "Op", "i": i, "op": op.Op, "n": op.N, "off": pos(op.Off), "whence": op.Whence,
			"k": 0, "err": "nil", "at": pos(0), "match": false, "ret": pos(0), "before": pos(before), "fresh": c.Fresh}
		func() {
			defer func() {
				if p := recover(); p != nil {
					r["err"] = "panic"
					r["panic"] = fmt.Sprint(p)
				}
			}()
			switch op.Op {
			case "read":
				buf := bytes.Repeat([]byte{0xAA}, op.N)
				k, e := f.Read(buf)
				r["k"], r["err"], r["at"] = k, errClass(e), pos(before)
				r["match"] = sliceEq(canon, before, buf[:k], varMask(c.Ps3))
			case "readat":
				buf := bytes.Repeat([]byte{0xAA}, op.N)
				k, e := f.ReadAt(buf, op.Off)
				r["k"], r["err"], r["at"] = k, errClass(e), pos(op.Off)
				r["match"] = sliceEq(canon, op.Off, buf[:k], varMask(c.Ps3))
			case "seek":
				ret, e := f.Seek(op.Off, op.Whence)
				r["ret"], r["err"] = pos(ret), errClass(e)
			}
		}()
		if r["err"] == "panic" {
			r["tell"] = pos(-1)
			em.emit(r)
			f = nil // the object may be in any state now
			continue
		}
		if op.Op == "readat" {
			r["tell"] = pos(last)
		} else {
			t := tellOf()
			r["tell"] = t
			last = unpos(t)
		}
		em.emit(r)
	}
	if f != nil {
		f.Close()
	}
	return nil
}

func sliceEq(canon []byte, at int64, got []byte, mask [][2]int64) bool {
	if at < 0 || at+int64(len(got)) > int64(len(canon)) {
		return len(got) == 0
	}
	if bytes.Equal(canon[at:at+int64(len(got))], got) {
		return true
	}
	return equalMasked(canon[at:at+int64(len(got))], got, at, mask)
}

// treeFacts: the directory as the harness itself walks it (lstat/readdir), with
// the string facts about each name that the specification cannot compute.
func treeFacts(root string, w *world) []interface{} {
	out := []interface{}{}
	var walk func(dir string, p []string)
	walk = func(dir string, p []string) {
		ents, err := os.ReadDir(dir)
		if err != nil {
			return
		}
		for _, e := range ents {
			full := filepath.Join(dir, e.Name())
			st, err := os.Stat(full) // the generator follows symlinks
			if err != nil {
				out = append(out, map[string]interface{}{"path": append(append([]string{}, p...), sanitize(e.Name())), "kind": "dangling",
					"size": pos(0), "cid": "", "name": nameFacts(e.Name()), "sparse": false})
				continue
			}
			np := append(append([]string{}, p...), sanitize(e.Name()))
			if st.IsDir() {
				out = append(out, map[string]interface{}{"path": np, "kind": "dir", "size": pos(0), "cid": "", "name": nameFacts(e.Name()), "sparse": false})
				walk(full, np)
				continue
			}
			cid, sparse := "", false
			if ci, ok := w.carry[full]; ok {
				cid = ci.node.Cid
				sparse = ci.node.Islands != nil
			}
			out = append(out, map[string]interface{}{"path": np, "kind": "file", "size": pos(st.Size()), "cid": cid, "name": nameFacts(e.Name()), "sparse": sparse})
		}
	}
	walk(root, []string{})
	return out
}

// nameFacts: pure string facts about a file name.
func nameFacts(n string) map[string]interface{} {
	portable := len(n) > 0
	for i := 0; i < len(n); i++ {
		c := n[i]
		if !(c >= 'A' && c <= 'Z' || c >= 'a' && c <= 'z' || c >= '0' && c <= '9' || c == '_' || c == '.' || c == '-') {
			portable = false
		}
	}
	return map[string]interface{}{"raw": sanitize(n), "upper": sanitize(strings.ToUpper(n)), "portable": portable, "bytes": len(n),
		"utf16units": len(utf16.Encode([]rune(n)))}
}

// reopenCompare (C18): further opens of the same unchanged directory must give
// an image of the same size whose bytes differ from the first only inside the
// documented variable fields.
func reopenCompare(c *visoCaseJ, open func() (fileLike, error), first []byte, announced int64, em *emitter, root string) error {
	if c.SleepMs > 0 {
		time.Sleep(time.Duration(c.SleepMs) * time.Millisecond)
	}
	type res struct {
		size     int64
		diffs    [][2]int64 // byte ranges (outside the mask) that differ
		maskDiff bool
		err      string
	}
	results := make([]res, c.Reopen)
	gate := make(chan struct{})
	one := func(i int) {
		if len(c.Between) > 0 {
			// somebody else's image in between (another directory; the same directory in the other mode)
			o := *c
			o.Dir = c.Between
			if g, err := openViso(root, &o); err == nil {
				sequentialImage(g, 1<<30)
				g.Close()
			}
			o = *c
			o.Ps3 = !c.Ps3
			if g, err := openViso(root, &o); err == nil {
				sequentialImage(g, 1<<30)
				g.Close()
			}
		}
		if c.Parallel && c.Burst > 0 {
			<-gate
			for k := 0; k < c.Burst; k++ {
				g, err := open()
				if err != nil {
					results[i].err = "burst open: " + err.Error()
					return
				}
				if st, _ := g.Stat(); st.Size() != announced {
					results[i].err = fmt.Sprintf("burst open: size %d, first open %d", st.Size(), announced)
				}
				g.Close()
			}
		}
		f, err := open()
		if err != nil {
			results[i].err = err.Error()
			return
		}
		defer f.Close()
		st, _ := f.Stat()
		results[i].size = st.Size()
		img, err := sequentialImage(f, announced+(64<<20))
		if err != nil {
			results[i].err = err.Error()
			return
		}
		mask := varMask(c.Ps3)
		n := min(len(img), len(first))
		start := int64(-1)
		for j := 0; j <= n; j++ {
			differ := j < n && img[j] != first[j]
			masked := false
			if differ {
				for _, m := range mask {
					if int64(j) >= m[0] && int64(j) < m[1] {
						masked = true
					}
				}
				if masked {
					results[i].maskDiff = true
					differ = false
				}
			}
			if differ && start < 0 {
				start = int64(j)
			}
			if !differ && start >= 0 {
				if len(results[i].diffs) < 8 {
					results[i].diffs = append(results[i].diffs, [2]int64{start, int64(j)})
				}
				start = -1
			}
		}
		if len(img) != len(first) {
			results[i].diffs = append(results[i].diffs, [2]int64{int64(n), int64(max(len(img), len(first)))})
		}
	}
	if c.Parallel {
		var wg sync.WaitGroup
		for i := range results {
			wg.Add(1)
			go func() { defer wg.Done(); one(i) }()
		}
		close(gate)
		wg.Wait()
	} else {
		for i := range results {
			one(i)
		}
	}
	for i, r := range results {
		d := r.diffs
		if d == nil {
			d = [][2]int64{}
		}
		em.emit(map[string]interface{}{"ev": "Reopen", "i": i, "size": pos(r.size), "first": pos(announced), "diffs": d, "err": r.err,
			"parallel": c.Parallel, "variableFieldsDiffer": r.maskDiff})
	}
	return nil
}
