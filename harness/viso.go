package main

// `verifh viso`: library-level driver for file-like views (fs.VirtualISO; later
// fs.EncryptedISO / fs.ISO3k3y): open the view, obtain the canonical image by
// one sequential read on a separate instance, then perform scripted
// Read/Seek/ReadAt calls and record what each returned.

import (
	"bufio"
	"bytes"
	"encoding/json"
	"errors"
	"fmt"
	"io"
	"os"
	"path/filepath"
	"sort"

	"github.com/spf13/afero"

	pfs "github.com/xakep666/ps3netsrv-go/pkg/fs"
)

type opJ struct {
	Op     string `json:"op"` // read | readat | seek
	N      int    `json:"n,omitempty"`
	Off    int64  `json:"off,omitempty"`
	Whence int    `json:"whence,omitempty"`
}

type visoCaseJ struct {
	Name  string   `json:"name"`
	Nodes []nodeJ  `json:"nodes"`
	Dir   []string `json:"dir"` // directory to turn into an image (relative to the root)
	Ps3   bool     `json:"ps3,omitempty"`
	OsFs  bool     `json:"osfs,omitempty"` // open with OsFs + absolute path (as make-iso does)
	Ops   []opJ    `json:"ops"`
	Fresh bool     `json:"fresh,omitempty"` // run every op on a freshly opened instance
}

type visoScriptJ struct {
	Cases []visoCaseJ `json:"cases"`
}

func errClass(err error) string {
	switch {
	case err == nil:
		return "nil"
	case errors.Is(err, io.EOF):
		return "EOF"
	default:
		return "other"
	}
}

func cmdViso(args []string) error {
	var scriptPath, outPath string
	for i := 0; i < len(args)-1; i += 2 {
		switch args[i] {
		case "-script":
			scriptPath = args[i+1]
		case "-out":
			outPath = args[i+1]
		case "-iso":
			if err := loadIso(args[i+1]); err != nil {
				return err
			}
		}
	}
	raw, err := os.ReadFile(scriptPath)
	if err != nil {
		return err
	}
	var sc visoScriptJ
	if err := json.Unmarshal(raw, &sc); err != nil {
		return err
	}
	of, err := os.Create(outPath)
	if err != nil {
		return err
	}
	defer of.Close()
	em := &emitter{w: bufio.NewWriterSize(of, 1<<20)}
	defer em.w.Flush()
	for i := range sc.Cases {
		if err := runVisoCase(&sc.Cases[i], em, i); err != nil {
			return fmt.Errorf("case %d (%s): %w", i, sc.Cases[i].Name, err)
		}
	}
	return nil
}

type fileLike interface {
	io.Reader
	io.ReaderAt
	io.Seeker
	io.Closer
	Stat() (os.FileInfo, error)
}

func openViso(root string, c *visoCaseJ) (fileLike, error) {
	if c.OsFs {
		return pfs.NewVirtualISO(afero.NewOsFs(), filepath.Join(append([]string{root}, c.Dir...)...), c.Ps3)
	}
	return pfs.NewVirtualISO(afero.NewBasePathFs(afero.NewOsFs(), root), "/"+filepath.Join(c.Dir...), c.Ps3)
}

// sequentialImage reads the whole view with an aligned 1 MiB buffer.
func sequentialImage(f fileLike, limit int64) (data []byte, err error) {
	defer func() {
		if r := recover(); r != nil {
			err = fmt.Errorf("panic: %v", r)
		}
	}()
	buf := make([]byte, 1<<20)
	for {
		n, e := f.Read(buf)
		data = append(data, buf[:n]...)
		if e == io.EOF {
			return data, nil
		}
		if e != nil {
			return data, e
		}
		if n == 0 {
			return data, fmt.Errorf("no progress at %d", len(data))
		}
		if int64(len(data)) > limit {
			return data, fmt.Errorf("image longer than %d", limit)
		}
	}
}

func runVisoCase(c *visoCaseJ, em *emitter, index int) error {
	base, err := os.MkdirTemp("", "vv-")
	if err != nil {
		return err
	}
	defer os.RemoveAll(base)
	base, _ = filepath.EvalSymlinks(base)
	reg := newRegistry()
	w := newWorld(base, "g", reg)
	if err := w.materialise(c.Nodes, false); err != nil {
		return err
	}
	open := func() (fileLike, error) { return openViso(w.root, c) }

	ev := map[string]interface{}{"ev": "Open", "name": c.Name, "index": index, "ps3": c.Ps3}
	ref, err := open()
	if err != nil {
		ev["opened"] = false
		ev["mustOpen"] = true
		ev["err"] = err.Error()
		em.emit(ev)
		return nil
	}
	ev["opened"] = true
	st, _ := ref.Stat()
	announced := st.Size()
	canon, cerr := sequentialImage(ref, announced+(64<<20))
	ref.Close()
	ev["announced"] = pos(announced)
	ev["total"] = pos(int64(len(canon)))
	ev["canon"] = "ok"
	if cerr != nil {
		ev["canon"] = "failed: " + cerr.Error()
	}
	// structural boundaries seen in the image: starts/ends of member files, their padded ends
	bset := map[int64]bool{0: true, int64(len(canon)): true}
	var lastEnd int64
	for _, r := range reg.describe(canon) {
		if len(r.Srcs) == 0 {
			continue
		}
		s, e := unpos(r.Off), int64(0)
		_ = s
		_ = e
	}
	off := int64(0)
	for _, r := range reg.describe(canon) {
		if len(r.Srcs) > 0 {
			bset[off] = true
			bset[off+int64(r.Len)] = true
			padded := (off + int64(r.Len) + 2047) / 2048 * 2048
			bset[padded] = true
			if padded > lastEnd {
				lastEnd = padded
			}
		}
		off += int64(r.Len)
	}
	if lastEnd > 0 {
		bset[lastEnd] = true
	}
	var bounds []int64
	for b := range bset {
		bounds = append(bounds, b)
	}
	sort.Slice(bounds, func(i, j int) bool { return bounds[i] < bounds[j] })
	ev["bounds"] = bounds
	em.emit(ev)
	if cerr != nil {
		return nil
	}

	var f fileLike
	tellOf := func() [2]int64 {
		t, err := f.Seek(0, io.SeekCurrent)
		if err != nil {
			return pos(-1)
		}
		return pos(t)
	}
	for i, op := range c.Ops {
		if f == nil || c.Fresh {
			if f != nil {
				f.Close()
			}
			f, err = open()
			if err != nil {
				return err
			}
		}
		before := unpos(tellOf())
		r := map[string]interface{}{"ev": "Op", "i": i, "op": op.Op, "n": op.N, "off": pos(op.Off), "whence": op.Whence,
			"k": 0, "err": "nil", "at": pos(0), "match": false, "ret": pos(0), "before": pos(before), "fresh": c.Fresh}
		func() {
			defer func() {
				if p := recover(); p != nil {
					r["err"] = "panic"
					r["panic"] = fmt.Sprint(p)
				}
			}()
			switch op.Op {
			case "read":
				buf := bytes.Repeat([]byte{0xAA}, op.N)
				k, e := f.Read(buf)
				r["k"], r["err"], r["at"] = k, errClass(e), pos(before)
				r["match"] = sliceEq(canon, before, buf[:k], varMask(c.Ps3))
			case "readat":
				buf := bytes.Repeat([]byte{0xAA}, op.N)
				k, e := f.ReadAt(buf, op.Off)
				r["k"], r["err"], r["at"] = k, errClass(e), pos(op.Off)
				r["match"] = sliceEq(canon, op.Off, buf[:k], varMask(c.Ps3))
			case "seek":
				ret, e := f.Seek(op.Off, op.Whence)
				r["ret"], r["err"] = pos(ret), errClass(e)
			}
		}()
		if r["err"] == "panic" {
			r["tell"] = pos(-1)
			em.emit(r)
			f = nil // the object may be in any state now
			continue
		}
		r["tell"] = tellOf()
		em.emit(r)
	}
	if f != nil {
		f.Close()
	}
	return nil
}

func sliceEq(canon []byte, at int64, got []byte, mask [][2]int64) bool {
	if at < 0 || at+int64(len(got)) > int64(len(canon)) {
		return len(got) == 0
	}
	if bytes.Equal(canon[at:at+int64(len(got))], got) {
		return true
	}
	return equalMasked(canon[at:at+int64(len(got))], got, at, mask)
}
