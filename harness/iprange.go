package main

// `verifh iprange`: call iprange.ParseIPRange on each text and Contains on each probe address.

import (
	"encoding/json"
	"net"
	"os"

	"github.com/xakep666/ps3netsrv-go/pkg/iprange"
)

type ipCaseJ struct {
	Text   string   `json:"text"`
	Probes []string `json:"probes"` // textual addresses
	Raw16  []bool   `json:"raw16"`  // probe i is handed over in 16-byte form (else as parsed: 4-byte for IPv4)
}

func cmdIPRange(args []string) error {
	var scriptPath, outPath string
	for i := 0; i < len(args)-1; i += 2 {
		switch args[i] {
		case "-script":
			scriptPath = args[i+1]
		case "-out":
			outPath = args[i+1]
		}
	}
	raw, err := os.ReadFile(scriptPath)
	if err != nil {
		return err
	}
	var cases []ipCaseJ
	if err := json.Unmarshal(raw, &cases); err != nil {
		return err
	}
	type res struct {
		Accepted bool   `json:"accepted"`
		In       []bool `json:"in"`
		Panic    string `json:"panic"`
	}
	out := make([]res, len(cases))
	for i, c := range cases {
		func() {
			defer func() {
				if p := recover(); p != nil {
					out[i].Panic = "panic"
				}
			}()
			r, err := iprange.ParseIPRange(c.Text)
			out[i].Accepted = err == nil && r != nil
			out[i].In = make([]bool, len(c.Probes))
			if !out[i].Accepted {
				return
			}
			for j, p := range c.Probes {
				ip := net.ParseIP(p)
				if ip == nil {
					continue
				}
				if v4 := ip.To4(); v4 != nil && !(j < len(c.Raw16) && c.Raw16[j]) {
					ip = v4
				}
				out[i].In[j] = r.Contains(ip)
			}
		}()
	}
	b, _ := json.Marshal(out)
	return os.WriteFile(outPath, b, 0o644)
}
