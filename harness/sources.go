package main

// Content sources: named, deterministic byte strings the harness fills files
// with and later recognises in payloads.  A patterned source is
// self-identifying: every aligned 8-byte word holds (source id, word index), so
// a payload can be described as runs [source, offset, length] without knowing
// what the server was supposed to send.

import (
	"bytes"
	"encoding/binary"
	"hash/fnv"
	"io"
	"sort"
	"strings"
	"sync"
)

type source interface {
	Name() string
	Size() int64
	ReadAt(p []byte, off int64) (int, error) // io.ReaderAt semantics
}

// ---- patterned source (optionally sparse: only islands carry the pattern)

type island struct{ off, n int64 }

type patSource struct {
	name    string
	id      uint32 // 24 bits, non-zero
	size    int64
	islands []island // nil: fully patterned
	patches []patch  // explicit bytes planted at offsets (signatures)

	sortOnce sync.Once
	sorted   []island
}

type patch struct {
	off  int64
	data []byte
}

func srcID(name string) uint32 {
	h := fnv.New32a()
	h.Write([]byte(name))
	v := h.Sum32() & 0xFFFFFF
	if v == 0 {
		v = 1
	}
	return v
}

func (s *patSource) Name() string { return s.name }
func (s *patSource) Size() int64  { return s.size }

func (s *patSource) inIsland(o int64) bool {
	if s.islands == nil {
		return true
	}
	if len(s.islands) > 16 {
		// many islands (multi-extent files of terabytes): they are kept sorted by offset (see sortIslands)
		s.sortOnce.Do(s.sortIslands)
		i := sort.Search(len(s.sorted), func(i int) bool { return s.sorted[i].off+s.sorted[i].n > o })
		return i < len(s.sorted) && o >= s.sorted[i].off
	}
	for _, is := range s.islands {
		if o >= is.off && o < is.off+is.n {
			return true
		}
	}
	return false
}

func (s *patSource) sortIslands() {
	s.sorted = append(s.sorted[:0], s.islands...)
	sort.Slice(s.sorted, func(i, j int) bool { return s.sorted[i].off < s.sorted[j].off })
	// overlapping islands are merged so that "first island ending after o" decides
	out := s.sorted[:0]
	for _, is := range s.sorted {
		if len(out) > 0 && is.off <= out[len(out)-1].off+out[len(out)-1].n {
			if e := is.off + is.n; e > out[len(out)-1].off+out[len(out)-1].n {
				out[len(out)-1].n = e - out[len(out)-1].off
			}
			continue
		}
		out = append(out, is)
	}
	s.sorted = out
}

func (s *patSource) byteAt(o int64) byte {
	for _, p := range s.patches {
		if o >= p.off && o < p.off+int64(len(p.data)) {
			return p.data[o-p.off]
		}
	}
	if !s.inIsland(o) {
		return 0
	}
	w := uint64(s.id)<<40 | uint64(o/8)&0xFFFFFFFFFF
	var b [8]byte
	binary.BigEndian.PutUint64(b[:], w)
	return b[o%8]
}

func (s *patSource) ReadAt(p []byte, off int64) (int, error) {
	if off >= s.size {
		return 0, io.EOF
	}
	n := len(p)
	if int64(n) > s.size-off {
		n = int(s.size - off)
	}
	if s.islands == nil && len(s.patches) == 0 {
		// fast path
		var b [8]byte
		i := 0
		for i < n {
			o := off + int64(i)
			w := uint64(s.id)<<40 | uint64(o/8)&0xFFFFFFFFFF
			binary.BigEndian.PutUint64(b[:], w)
			i += copy(p[i:n], b[o%8:])
		}
	} else {
		for i := 0; i < n; i++ {
			p[i] = s.byteAt(off + int64(i))
		}
	}
	if n < len(p) {
		return n, io.EOF
	}
	return n, nil
}

// ---- literal source (payload chunks, reference images)

type memSource struct {
	name string
	data []byte
	mask [][2]int64 // byte ranges excluded from comparison (documented variable fields)
}

func (s *memSource) Name() string { return s.name }
func (s *memSource) Size() int64  { return int64(len(s.data)) }
func (s *memSource) ReadAt(p []byte, off int64) (int, error) {
	if off >= int64(len(s.data)) {
		return 0, io.EOF
	}
	n := copy(p, s.data[off:])
	if n < len(p) {
		return n, io.EOF
	}
	return n, nil
}

// ---- concatenation of chunks ("a+b+c")

type catSource struct {
	name  string
	parts []source
}

func (s *catSource) Name() string { return s.name }
func (s *catSource) Size() int64 {
	var t int64
	for _, p := range s.parts {
		t += p.Size()
	}
	return t
}
func (s *catSource) ReadAt(p []byte, off int64) (int, error) {
	n := 0
	for _, part := range s.parts {
		if off >= part.Size() {
			off -= part.Size()
			continue
		}
		for n < len(p) && off < part.Size() {
			m, _ := part.ReadAt(p[n:], off)
			if m == 0 {
				break
			}
			n += m
			off += int64(m)
		}
		off = 0
		if n == len(p) {
			return n, nil
		}
	}
	if n < len(p) {
		return n, io.EOF
	}
	return n, nil
}

// ---- registry

type registry struct {
	mu   sync.Mutex
	byID map[uint32]*patSource
	all  map[string]source
}

func newRegistry() *registry {
	return &registry{byID: map[uint32]*patSource{}, all: map[string]source{}}
}

func (r *registry) add(s source) {
	r.mu.Lock()
	defer r.mu.Unlock()
	r.all[s.Name()] = s
	if p, ok := s.(*patSource); ok {
		r.byID[p.id] = p
	}
}

func (r *registry) get(name string) source {
	r.mu.Lock()
	defer r.mu.Unlock()
	if s, ok := r.all[name]; ok {
		return s
	}
	// a '+'-joined name denotes the concatenation of known chunks
	if strings.Contains(name, "+") {
		var parts []source
		for _, n := range strings.Split(name, "+") {
			p, ok := r.all[n]
			if !ok {
				return nil
			}
			parts = append(parts, p)
		}
		c := &catSource{name: name, parts: parts}
		r.all[name] = c
		return c
	}
	return nil
}

func (r *registry) names() []string {
	r.mu.Lock()
	defer r.mu.Unlock()
	var n []string
	for k := range r.all {
		n = append(n, k)
	}
	sort.Strings(n)
	return n
}

// matchAt returns the names of all sources whose bytes [off, off+len(p)) equal p.
func (r *registry) matchAt(p []byte, off int64) []string {
	var res []string
	buf := make([]byte, len(p))
	for _, name := range r.names() {
		s := r.get(name)
		if s == nil || off < 0 || off+int64(len(p)) > s.Size() {
			continue
		}
		if ms, ok := s.(*memSource); !(ok && len(ms.mask) > 0) && len(p) > 64 {
			// cheap rejection on the first bytes before comparing everything
			var head [32]byte
			if k, _ := s.ReadAt(head[:], off); k == 32 && !bytes.Equal(head[:], p[:32]) {
				continue
			}
		}
		n, _ := s.ReadAt(buf, off)
		if n != len(p) {
			continue
		}
		if ms, ok := s.(*memSource); ok && len(ms.mask) > 0 {
			if equalMasked(buf, p, off, ms.mask) {
				res = append(res, name)
			}
			continue
		}
		if bytes.Equal(buf, p) {
			res = append(res, name)
		}
	}
	return res
}

func equalMasked(a, b []byte, off int64, mask [][2]int64) bool {
	for i := range a {
		if a[i] == b[i] {
			continue
		}
		o := off + int64(i)
		ok := false
		for _, m := range mask {
			if o >= m[0] && o < m[1] {
				ok = true
				break
			}
		}
		if !ok {
			return false
		}
	}
	return true
}

type run struct {
	Srcs []string `json:"srcs"`
	Off  [2]int64 `json:"off"`
	Len  int      `json:"len"`
}

// describe splits a payload into maximal runs of self-identifying sources.
// Bytes that belong to no known source form runs with no source.
func (r *registry) describe(p []byte) []run {
	var runs []run
	i := 0
	for i < len(p) {
		src, off := r.identify(p[i:])
		if src == nil && len(p)-i < 16 {
			// too short to hold an aligned pattern word: try the start of every patterned source
			for _, name := range r.names() {
				ps, ok := r.get(name).(*patSource)
				if !ok || ps.size < int64(len(p)-i) {
					continue
				}
				chk := make([]byte, len(p)-i)
				if n, _ := ps.ReadAt(chk, 0); n == len(chk) && bytes.Equal(chk, p[i:]) {
					src, off = ps, 0
					break
				}
			}
		}
		if src == nil {
			// unknown byte: extend an unknown run (zero bytes and other bytes are kept apart:
			// a run of zeros may be a hole of a sparse source)
			label := []string{}
			if p[i] == 0 {
				label = []string{"?zero"}
			}
			if len(runs) > 0 && len(runs[len(runs)-1].Srcs) == len(label) && (len(label) == 0 || runs[len(runs)-1].Srcs[0] == "?zero") {
				runs[len(runs)-1].Len++
			} else {
				runs = append(runs, run{Srcs: label, Off: pos(0), Len: 1})
			}
			i++
			continue
		}
		// extend as far as the source continues
		n := 0
		buf := make([]byte, 64*1024)
		for i+n < len(p) {
			m := len(p) - i - n
			if m > len(buf) {
				m = len(buf)
			}
			k, _ := src.ReadAt(buf[:m], off+int64(n))
			j := 0
			for j < k && buf[j] == p[i+n+j] {
				j++
			}
			n += j
			if j < m {
				break
			}
		}
		if n == 0 {
			runs = append(runs, run{Srcs: []string{}, Off: pos(0), Len: 1})
			i++
			continue
		}
		if len(runs) > 0 {
			last := &runs[len(runs)-1]
			if len(last.Srcs) == 1 && last.Srcs[0] == src.Name() && unpos(last.Off)+int64(last.Len) == off {
				last.Len += n
				i += n
				continue
			}
		}
		runs = append(runs, run{Srcs: []string{src.Name()}, Off: pos(off), Len: n})
		i += n
	}
	return runs
}

// describeBlocks describes a payload block by block (block = 0: maximal runs):
// each block is located in a self-identifying source by its first bytes and
// then verified in full; one run per block, never merged.
func (r *registry) describeBlocks(p []byte, block int) []run {
	if block <= 0 {
		return r.describe(p)
	}
	var runs []run
	for i := 0; i < len(p); i += block {
		b := p[i:min(i+block, len(p))]
		src, off := r.identify(b)
		if src != nil {
			chk := make([]byte, len(b))
			n, _ := src.ReadAt(chk, off)
			if n == len(b) && bytes.Equal(chk, b) {
				runs = append(runs, run{Srcs: []string{src.Name()}, Off: pos(off), Len: len(b)})
				continue
			}
		}
		if len(b) < 16 {
			// too short to carry a whole aligned pattern word: cannot be located, only counted
			runs = append(runs, run{Srcs: []string{"?short"}, Off: pos(0), Len: len(b)})
			continue
		}
		runs = append(runs, run{Srcs: []string{}, Off: pos(0), Len: len(b)})
	}
	return runs
}

// identify finds the patterned source and offset the beginning of p comes from.
func (r *registry) identify(p []byte) (*patSource, int64) {
	if len(p) < 8 {
		return nil, 0
	}
	// try the aligned words of the first 40 bytes: the very first one may be overwritten by a planted signature
	for a := 0; a < 40 && a+8 <= len(p); a++ {
		w := binary.BigEndian.Uint64(p[a : a+8])
		id := uint32(w >> 40)
		r.mu.Lock()
		s := r.byID[id]
		r.mu.Unlock()
		if s == nil {
			continue
		}
		off := int64(w&0xFFFFFFFFFF)*8 - int64(a)
		if off < 0 || off >= s.size {
			continue
		}
		// verify the first bytes (the source's own ReadAt knows about planted bytes)
		chk := make([]byte, min(len(p), 48))
		n, _ := s.ReadAt(chk, off)
		if n == len(chk) && bytes.Equal(chk, p[:n]) {
			return s, off
		}
	}
	return nil, 0
}

func pos(v int64) [2]int64 {
	s := v >> 11 // floor division by 2048
	r := v & 2047
	const lim = 1<<31 - 1<<21
	if s > lim {
		s, r = lim, 2047
	}
	if s < -lim {
		s, r = -lim, 0
	}
	return [2]int64{s, r}
}

func unpos(p [2]int64) int64 { return p[0]*2048 + p[1] }

func posU(v uint64) [2]int64 {
	if v >= 1<<62 {
		return pos(1 << 62)
	}
	return pos(int64(v))
}
