// Command verifh is the conformance harness of /verif. It is compiled inside
// the ps3netsrv-go module through `go build -overlay` (as package
// internal/verifh) so that it can drive internal/handler and friends from the
// current working tree of /repo without writing anything into /repo.
package main

import (
	"fmt"
	"os"
)

func main() {
	if len(os.Args) < 2 {
		fmt.Fprintln(os.Stderr, "usage: verifh <session|...> [args]")
		os.Exit(2)
	}
	var err error
	switch os.Args[1] {
	case "session":
		err = cmdSession(os.Args[2:])
	case "viso":
		err = cmdViso(os.Args[2:])
	case "enc":
		err = cmdEnc(os.Args[2:])
	case "iprange":
		err = cmdIPRange(os.Args[2:])
	case "dumpiso":
		err = cmdDumpISO(os.Args[2:])
	case "encbuild":
		err = cmdEncBuild(os.Args[2:])
	case "classify":
		err = cmdClassify(os.Args[2:])
	case "cmpmask":
		err = cmdCmpMask(os.Args[2:])
	case "mkworld":
		err = cmdMkWorld(os.Args[2:])
	default:
		err = fmt.Errorf("unknown sub-command %q", os.Args[1])
	}
	if err != nil {
		fmt.Fprintln(os.Stderr, "verifh:", err)
		os.Exit(2)
	}
}
