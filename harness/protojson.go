package main

// Generic interpreter of the wire tables exported by TLC from spec/Proto.tla
// (proto.json).  Nothing about individual opcodes is hard-coded here.

import (
	"encoding/binary"
	"encoding/json"
	"fmt"
	"os"
	"strings"
)

type fieldDef struct {
	Name   string
	Off    int // requests: offset in the 14 data bytes; responses: unused
	Width  int
	Signed bool
}

type opDef struct {
	Name   string
	Kind   string
	Code   int
	Tail   []fieldDef
	Follow string
	Resp   []fieldDef
	Var    string
	Block  int // raw responses made of fixed-size blocks (sector reads)
}

type protoTable struct {
	Ops        []opDef
	DirEntry   []fieldDef
	CommandLen int
	byName     map[string]*opDef
	byCode     map[int]*opDef
}

func loadProto(path string) (*protoTable, error) {
	raw, err := os.ReadFile(path)
	if err != nil {
		return nil, err
	}
	var j struct {
		Ops []struct {
			Name   string          `json:"name"`
			Kind   string          `json:"kind"`
			Code   int             `json:"code"`
			Tail   [][]interface{} `json:"tail"`
			Follow string          `json:"follow"`
			Resp   [][]interface{} `json:"resp"`
			Var    string          `json:"var"`
			Block  int             `json:"block"`
		} `json:"ops"`
		DirEntry   [][]interface{} `json:"direntry"`
		CommandLen int             `json:"commandLen"`
	}
	if err := json.Unmarshal(raw, &j); err != nil {
		return nil, err
	}
	pt := &protoTable{CommandLen: j.CommandLen, byName: map[string]*opDef{}, byCode: map[int]*opDef{}}
	respField := func(l []interface{}) fieldDef {
		return fieldDef{Name: l[0].(string), Width: int(l[1].(float64)), Signed: l[2].(bool)}
	}
	for _, o := range j.Ops {
		od := opDef{Name: o.Name, Kind: o.Kind, Code: o.Code, Follow: o.Follow, Var: o.Var, Block: o.Block}
		for _, t := range o.Tail {
			od.Tail = append(od.Tail, fieldDef{Name: t[0].(string), Off: int(t[1].(float64)), Width: int(t[2].(float64))})
		}
		for _, r := range o.Resp {
			od.Resp = append(od.Resp, respField(r))
		}
		pt.Ops = append(pt.Ops, od)
	}
	for i := range pt.Ops {
		pt.byName[pt.Ops[i].Name] = &pt.Ops[i]
		pt.byCode[pt.Ops[i].Code] = &pt.Ops[i]
	}
	for _, r := range j.DirEntry {
		pt.DirEntry = append(pt.DirEntry, respField(r))
	}
	return pt, nil
}

func putBE(b []byte, v uint64) {
	for i := len(b) - 1; i >= 0; i-- {
		b[i] = byte(v)
		v >>= 8
	}
}

func getBE(b []byte) uint64 {
	var v uint64
	for _, x := range b {
		v = v<<8 | uint64(x)
	}
	return v
}

// encode builds the frame of a request: 16-byte command + path / payload.
func (pt *protoTable) encode(op string, args map[string]uint64, follow []byte) ([]byte, error) {
	od := pt.byName[op]
	if od == nil {
		return nil, fmt.Errorf("unknown op %q", op)
	}
	cmd := make([]byte, pt.CommandLen)
	binary.BigEndian.PutUint16(cmd, uint16(od.Code))
	for _, f := range od.Tail {
		v := args[f.Name]
		if f.Name == "len" {
			if _, given := args["len"]; !given {
				v = uint64(len(follow))
			}
		}
		putBE(cmd[2+f.Off:2+f.Off+f.Width], v)
	}
	return append(cmd, follow...), nil
}

type frame struct {
	Op     string            // op name, BAD_OPCODE or TRUNCATED
	Args   map[string]uint64 // decoded tail
	Follow []byte            // path or payload bytes present
	Bytes  []byte            // the raw bytes of this frame
	Of     string            // for TRUNCATED: the op whose frame was cut ("" if not even the opcode is known)
}

// reframe parses a byte stream the way the protocol defines it.
func (pt *protoTable) reframe(b []byte) []frame {
	var res []frame
	for len(b) > 0 {
		if len(b) < pt.CommandLen {
			res = append(res, frame{Op: "TRUNCATED", Bytes: b})
			return res
		}
		code := int(binary.BigEndian.Uint16(b))
		od := pt.byCode[code]
		if od == nil {
			// the server ends the connection here; the rest is never looked at
			res = append(res, frame{Op: "BAD_OPCODE", Bytes: b})
			return res
		}
		fr := frame{Op: od.Name, Args: map[string]uint64{}}
		for _, f := range od.Tail {
			fr.Args[f.Name] = getBE(b[2+f.Off : 2+f.Off+f.Width])
		}
		n := pt.CommandLen
		if od.Follow != "none" {
			want := int(fr.Args["len"])
			if len(b)-n < want {
				fr.Of = fr.Op
				fr.Op = "TRUNCATED"
				fr.Bytes = b
				res = append(res, fr)
				return res
			}
			fr.Follow = b[n : n+want]
			n += want
		}
		fr.Bytes = b[:n]
		res = append(res, fr)
		b = b[n:]
	}
	return res
}

func decodeFields(defs []fieldDef, b []byte) (map[string]interface{}, int) {
	m := map[string]interface{}{}
	o := 0
	for _, f := range defs {
		raw := b[o : o+f.Width]
		o += f.Width
		if f.Width > 8 { // fixed-size name field: up to the first NUL
			n := 0
			for n < len(raw) && raw[n] != 0 {
				n++
			}
			m[f.Name] = sanitize(string(raw[:n]))
			continue
		}
		v := getBE(raw)
		switch {
		case f.Width == 8 && f.Signed:
			m[f.Name] = pos(int64(v))
		case f.Width == 8:
			if v > 1<<31-1 {
				v = 1<<31 - 1
			}
			m[f.Name] = int64(v)
		case f.Signed && f.Width == 4:
			m[f.Name] = int64(int32(uint32(v)))
		default:
			m[f.Name] = int64(v)
		}
	}
	return m, o
}

func fixedLen(defs []fieldDef) int {
	n := 0
	for _, f := range defs {
		n += f.Width
	}
	return n
}

// decodeResp turns the complete output of one request into an abstract record.
// payload (for data-carrying responses) is returned separately.
func (pt *protoTable) decodeResp(op string, b []byte) (map[string]interface{}, []byte) {
	if len(b) == 0 {
		return map[string]interface{}{"k": "None"}, nil
	}
	garbage := func() (map[string]interface{}, []byte) {
		return map[string]interface{}{"k": "Garbage", "len": len(b)}, nil
	}
	od := pt.byName[op]
	if od == nil {
		return garbage()
	}
	if od.Var == "raw" {
		return map[string]interface{}{"k": od.Kind, "len": len(b)}, b
	}
	fl := fixedLen(od.Resp)
	if len(b) < fl {
		return garbage()
	}
	m, _ := decodeFields(od.Resp, b)
	m["k"] = od.Kind
	rest := b[fl:]
	switch od.Var {
	case "none":
		if len(rest) != 0 {
			return garbage()
		}
		return m, nil
	case "name":
		nl := int(m["namelen"].(int64))
		if len(rest) != nl {
			return garbage()
		}
		m["name"] = sanitize(string(rest))
		return m, nil
	case "data":
		n := m["n"].(int64)
		if n <= 0 {
			if len(rest) != 0 {
				return garbage()
			}
			return m, []byte{}
		}
		if int64(len(rest)) < n {
			// fewer bytes than announced (the transfer was cut: only legal together with a closed connection)
			m["k"] = od.Kind + "Cut"
			return m, rest
		}
		if int64(len(rest)) != n {
			return garbage()
		}
		return m, rest
	case "entries":
		cnt := unpos(m["count"].([2]int64))
		el := fixedLen(pt.DirEntry)
		if cnt < 0 || int64(len(rest)) != cnt*int64(el) {
			return garbage()
		}
		ents := []interface{}{}
		for i := int64(0); i < cnt; i++ {
			e, _ := decodeFields(pt.DirEntry, rest[i*int64(el):(i+1)*int64(el)])
			ents = append(ents, e)
		}
		delete(m, "count")
		m["ents"] = ents
		return m, nil
	}
	return garbage()
}

// sanitize maps a file name / path segment to a string TLC's JSON reader accepts
// unchanged: printable ASCII stays, anything else becomes "~" + hex.
func sanitize(s string) string {
	ok := true
	for i := 0; i < len(s); i++ {
		c := s[i]
		if c < 0x20 || c > 0x7e || c == '"' || c == '\\' || c == '~' {
			ok = false
			break
		}
	}
	if ok {
		return s
	}
	if len(s) > 300 {
		return fmt.Sprintf("~long%d:%x", len(s), srcID(s))
	}
	return "~" + fmt.Sprintf("%x", s)
}

func splitSegs(path []byte) []string {
	parts := strings.Split(string(path), "/")
	out := make([]string, len(parts))
	for i, p := range parts {
		out[i] = sanitize(p)
	}
	return out
}

// badSegs lists the (sanitised) segments of a wire path that no file system
// object can be called: they contain a NUL byte or are longer than 255 bytes.
func badSegs(path []byte) []string {
	out := []string{}
	for _, p := range strings.Split(string(path), "/") {
		if len(p) > 255 || strings.ContainsRune(p, 0) {
			out = append(out, sanitize(p))
		}
	}
	return out
}
