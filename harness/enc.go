package main

// `verifh enc`: library-level driver for the decrypting / masking views
// (fs.EncryptedISO, fs.ISO3k3y, and fs.FS.Open's choice between them).

import (
	"bufio"
	"bytes"
	"encoding/hex"
	"encoding/json"
	"errors"
	"fmt"
	"io"
	"os"
	"path/filepath"

	"github.com/spf13/afero"

	pfs "github.com/xakep666/ps3netsrv-go/pkg/fs"
)

type encCaseJ struct {
	Name     string            `json:"name"`
	Spec     encSpec           `json:"spec"`
	OpenKey  string            `json:"openKey"`            // hex key handed to NewEncryptedISO (default: spec.key)
	Clear    bool              `json:"clear,omitempty"`    // clearRegions
	Wrap3k3y string            `json:"wrap3k3y,omitempty"` // "" | "over-enc" | "over-raw"
	Cut      []int             `json:"cut,omitempty"`      // underlying Read calls return at most these many bytes, cyclically
	Ops      []opJ             `json:"ops"`
	Cuts     []int64           `json:"cuts,omitempty"` // extra segment boundaries for the classification
	Keys     map[string]string `json:"keys,omitempty"` // candidate keys by name (default {"k": spec.key})

	// C11: place the image in a served tree and open it through fs.FS (the server's file system)
	Layout *layoutJ               `json:"layout,omitempty"`
	Facts  map[string]interface{} `json:"facts,omitempty"` // layout facts computed by TLC's generator, echoed into the trace
}

type layoutJ struct {
	Path        []string `json:"path"`        // image path below the root
	AdjacentKey string   `json:"adjacentKey"` // content of <base>.dkey beside the image ("" = no such file)
	RedkeyPath  []string `json:"redkeyPath"`  // where the REDKEY key file goes
	RedkeyKey   string   `json:"redkeyKey"`   // its content ("" = none)
	Mode        string   `json:"mode"`        // read | write
}

type encScriptJ struct {
	Cases []encCaseJ `json:"cases"`
}

// cutFile makes the underlying file return short reads.
type cutFile struct {
	afero.File
	cut    []int
	i      int
	nextAt string // "eof" | "err": the next ReadAt ends early
	hitAt  bool
}

// ReadAt: cut on demand - half of what was asked for, then end of file (the file shrank) or an I/O error.
func (c *cutFile) ReadAt(p []byte, off int64) (int, error) {
	if c.nextAt != "" && len(p) > 1 {
		kind := c.nextAt
		c.nextAt = ""
		c.hitAt = true
		n, _ := c.File.ReadAt(p[:len(p)/2], off)
		if kind == "eof" {
			return n, io.EOF
		}
		return n, errors.New("injected I/O error")
	}
	return c.File.ReadAt(p, off)
}

func (c *cutFile) Read(p []byte) (int, error) {
	if len(c.cut) > 0 {
		n := c.cut[c.i%len(c.cut)]
		c.i++
		if n > 0 && n < len(p) {
			p = p[:n]
		}
	}
	return c.File.Read(p)
}

func cmdEnc(args []string) error {
	var scriptPath, outPath string
	for i := 0; i < len(args)-1; i += 2 {
		switch args[i] {
		case "-script":
			scriptPath = args[i+1]
		case "-out":
			outPath = args[i+1]
		}
	}
	raw, err := os.ReadFile(scriptPath)
	if err != nil {
		return err
	}
	var sc encScriptJ
	if err := json.Unmarshal(raw, &sc); err != nil {
		return err
	}
	of, err := os.Create(outPath)
	if err != nil {
		return err
	}
	defer of.Close()
	em := &emitter{w: bufio.NewWriterSize(of, 1<<20)}
	defer em.w.Flush()
	for i := range sc.Cases {
		if err := runEncCase(&sc.Cases[i], em, i); err != nil {
			return fmt.Errorf("case %d (%s): %w", i, sc.Cases[i].Name, err)
		}
	}
	return nil
}

func runEncCase(c *encCaseJ, em *emitter, index int) error {
	dir, err := os.MkdirTemp("", "ve-")
	if err != nil {
		return err
	}
	defer os.RemoveAll(dir)
	if c.Spec.PlainName == "" {
		c.Spec.PlainName = "plain"
	}
	img, err := buildEncImage(c.Spec)
	if err != nil {
		return err
	}
	fp := filepath.Join(dir, "image.iso")
	if c.Layout != nil {
		fp = filepath.Join(append([]string{dir}, c.Layout.Path...)...)
		if err := os.MkdirAll(filepath.Dir(fp), 0o755); err != nil {
			return err
		}
		base := fp[:len(fp)-len(filepath.Ext(fp))]
		if c.Layout.AdjacentKey != "" {
			if err := os.WriteFile(base+".dkey", []byte(c.Layout.AdjacentKey), 0o644); err != nil {
				return err
			}
		}
		if c.Layout.RedkeyKey != "" {
			kp := filepath.Join(append([]string{dir}, c.Layout.RedkeyPath...)...)
			if err := os.MkdirAll(filepath.Dir(kp), 0o755); err != nil {
				return err
			}
			if err := os.WriteFile(kp, []byte(c.Layout.RedkeyKey), 0o644); err != nil {
				return err
			}
		}
	}
	if err := os.WriteFile(fp, img.raw, 0o644); err != nil {
		return err
	}
	keys := map[string][]byte{}
	for n, h := range c.Keys {
		k, _ := hex.DecodeString(h)
		keys[n] = k
	}
	if len(keys) == 0 && len(img.key) == 16 {
		keys["k"] = img.key
	}
	openKey := img.key
	if c.OpenKey != "" {
		openKey, _ = hex.DecodeString(c.OpenKey)
	}
	regions := c.Spec.Regions
	if regions == nil {
		regions = [][2]int64{}
	}
	// the model checker's integers are 32-bit: bounds far beyond any file are reported just below 2^31 (order preserved)
	evRegions := make([][2]int64, len(regions))
	for i, r := range regions {
		evRegions[i] = [2]int64{min(r[0], 1<<31-2), min(r[1], 1<<31-1)}
	}
	count := int64(len(c.Spec.Regions))
	if c.Spec.RawCount != nil {
		count = *c.Spec.RawCount
	}
	var cf *cutFile // the underlying file of the view opened last (nil when opened through fs.FS)
	open := func() (fileLike, error) {
		cf = nil
		if c.Layout != nil {
			fsys := &pfs.FS{Fs: afero.NewBasePathFs(afero.NewOsFs(), dir)}
			name := "/" + filepath.Join(c.Layout.Path...)
			if c.Layout.Mode == "write" {
				return fsys.OpenFile(name, os.O_RDWR|os.O_APPEND, 0)
			}
			return fsys.Open(name)
		}
		var f afero.File
		f, err := afero.NewOsFs().Open(fp)
		if err != nil {
			return nil, err
		}
		cf = &cutFile{File: f, cut: c.Cut}
		f = cf
		var view afero.File = f
		if c.Wrap3k3y != "over-raw" {
			e, err := pfs.NewEncryptedISO(f, openKey, c.Clear)
			if err != nil {
				f.Close()
				return nil, err
			}
			view = e
		}
		if c.Wrap3k3y != "" {
			k, err := pfs.NewISO3k3y(view)
			if err != nil {
				view.Close()
				return nil, err
			}
			view = k
		}
		return view, nil
	}
	ev := map[string]interface{}{"ev": "EncOpen", "name": c.Name, "index": index, "regions": evRegions, "count": pos(count), "clear": c.Clear,
		"masked": c.Wrap3k3y != "", "decrypting": c.Wrap3k3y != "over-raw", "total": pos(int64(len(img.raw))), "cut": len(c.Cut) > 0,
		"layout": c.Layout != nil, "facts": map[string]interface{}{"none": true}}
	if c.Facts != nil {
		ev["facts"] = c.Facts
	}
	var f fileLike
	func() {
		defer func() {
			if p := recover(); p != nil {
				err = fmt.Errorf("panic: %v", p)
				ev["panic"] = fmt.Sprint(p)
			}
		}()
		f, err = open()
	}()
	if err != nil {
		ev["opened"] = false
		ev["err"] = err.Error()
		if _, ok := ev["panic"]; !ok {
			ev["panic"] = ""
		}
		em.emit(ev)
		return nil
	}
	ev["opened"] = true
	ev["err"] = ""
	ev["panic"] = ""
	st, _ := f.Stat()
	ev["announced"] = pos(st.Size())
	em.emit(ev)

	tellOf := func() [2]int64 {
		t, err := f.Seek(0, io.SeekCurrent)
		if err != nil {
			return pos(-1)
		}
		return pos(t)
	}
	last := int64(0) // cursor as last observed; positional reads are not followed by a Seek (no observer effect)
	for i, op := range c.Ops {
		if f == nil {
			f, err = open()
			if err != nil {
				return err
			}
			last = 0
		}
		before := last
		r := map[string]interface{}{"ev": "EncOp", "i": i, "op": op.Op, "n": op.N, "off": pos(op.Off), "whence": op.Whence,
			"k": 0, "err": "nil", "at": pos(0), "segs": []interface{}{}, "ret": pos(0), "before": pos(before), "fresh": false, "under": false}
		if cf != nil {
			cf.nextAt, cf.hitAt = op.Under, false
		}
		func() {
			defer func() {
				if p := recover(); p != nil {
					r["err"] = "panic"
					r["panic"] = fmt.Sprint(p)
				}
			}()
			switch op.Op {
			case "read":
				buf := bytes.Repeat([]byte{0xAA}, op.N)
				k, e := f.Read(buf)
				r["k"], r["err"], r["at"] = k, errClass(e), pos(before)
				r["segs"] = classify(img.raw, before, buf[:k], c.Cuts, keys)
			case "readat":
				buf := bytes.Repeat([]byte{0xAA}, op.N)
				k, e := f.ReadAt(buf, op.Off)
				r["k"], r["err"], r["at"] = k, errClass(e), pos(op.Off)
				r["segs"] = classify(img.raw, op.Off, buf[:k], c.Cuts, keys)
			case "seek":
				ret, e := f.Seek(op.Off, op.Whence)
				r["ret"], r["err"] = pos(ret), errClass(e)
			}
		}()
		if cf != nil {
			r["under"] = cf.hitAt // the underlying file did end early during this call
			cf.nextAt = ""
		}
		if r["err"] == "panic" {
			r["tell"] = pos(-1)
			em.emit(r)
			f = nil
			r["fresh"] = true
			continue
		}
		if op.Op == "readat" {
			r["tell"] = pos(last)
		} else {
			t := tellOf()
			r["tell"] = t
			last = unpos(t)
		}
		em.emit(r)
	}
	if f != nil {
		f.Close()
	}
	return nil
}
