package main

// Materialise a model world on disk and re-read ("snapshot") it with plain
// os/syscall calls - never through the code under test.

import (
	"bytes"
	"crypto/sha256"
	"encoding/hex"
	"fmt"
	"io"
	"os"
	"path/filepath"
	"sort"
	"strings"
	"syscall"
	"time"
)

type markJ struct {
	Off [2]int64 `json:"off"`
	Tag string   `json:"tag"`
}

// nodeJ is a node of the abstract tree, in scripts (input) and traces (output).
type nodeJ struct {
	P      []string `json:"p"`
	Kind   string   `json:"kind"`
	Size   [2]int64 `json:"size"`
	Cid    string   `json:"cid"`
	Vcid   string   `json:"vcid"`
	Vsize  [2]int64 `json:"vsize"`
	Mtime  int64    `json:"mtime"`
	Ctime  int64    `json:"ctime"`
	Target []string `json:"target"`
	Marks  []markJ  `json:"marks"`
	Unk    bool     `json:"unk"` // content is not a concatenation of known chunks (cid starts with "?")
	Any    bool     `json:"any"` // hostile content: what opening this file yields is unspecified (only "no crash" is demanded)

	// input only
	Islands [][2][2]int64 `json:"islands,omitempty"` // sparse content: [[off],[len]] pairs
	Enc     *encSpec      `json:"enc,omitempty"`     // build an encrypted / 3k3y image (see encimg.go)
	Raw     string        `json:"raw,omitempty"`     // hex: literal file content
}

var markBytes = map[string][]byte{
	"CD001": []byte("\x01CD001"),
	"PSX":   []byte("PLAYSTATION "),
}

type world struct {
	base     string // scratch directory holding root and the sentinel zone
	rootName string
	root     string // absolute path of the served root
	reg      *registry
	// carry-over facts for unchanged files: path -> info
	carry map[string]carryInfo
	big   int64 // files above this size are never read back in snapshots
	// synthesised encrypted images by absolute file path
	encImages map[string]*encImage
}

type carryInfo struct {
	node  nodeJ
	size  int64
	mtime time.Time
	ino   uint64
}

func segPath(root string, p []string) string {
	return filepath.Join(append([]string{root}, p...)...)
}

func newWorld(base, rootName string, reg *registry) *world {
	return &world{base: base, rootName: rootName, root: filepath.Join(base, rootName), reg: reg,
		carry: map[string]carryInfo{}, big: 8 << 20}
}

func (w *world) materialise(nodes []nodeJ, sentinel bool) error {
	if err := os.MkdirAll(w.root, 0o755); err != nil {
		return err
	}
	if sentinel {
		// the zone around the root: parent file, sibling whose name extends the root's name
		sib := filepath.Join(w.base, w.rootName+"-other")
		if err := os.MkdirAll(filepath.Join(sib, "sub"), 0o755); err != nil {
			return err
		}
		for p, c := range map[string]string{
			filepath.Join(w.base, "up.txt"):     "OUTSIDE-up",
			filepath.Join(sib, "secret"):        "OUTSIDE-secret-0123456789",
			filepath.Join(sib, "sub", "deep"):   "OUTSIDE-deep",
			filepath.Join(sib, "secret.dkey"):   "00112233445566778899aabbccddeeff",
			filepath.Join(w.base, "REDKEY.txt"): "OUTSIDE-redkey",
		} {
			if err := os.WriteFile(p, []byte(c), 0o644); err != nil {
				return err
			}
		}
	}
	// directories first (shallow to deep), then files, then links
	sorted := append([]nodeJ(nil), nodes...)
	sort.SliceStable(sorted, func(i, j int) bool { return len(sorted[i].P) < len(sorted[j].P) })
	for _, n := range sorted {
		if n.Kind == "dir" && len(n.P) > 0 {
			if err := os.MkdirAll(segPath(w.root, n.P), 0o755); err != nil {
				return err
			}
		}
	}
	for _, n := range sorted {
		if n.Kind != "file" {
			continue
		}
		if err := w.writeFile(n); err != nil {
			return fmt.Errorf("file %v: %w", n.P, err)
		}
	}
	for _, n := range sorted {
		if n.Kind != "link" {
			continue
		}
		lp := segPath(w.root, n.P)
		tp := segPath(w.root, n.Target)
		rel, err := filepath.Rel(filepath.Dir(lp), tp)
		if err != nil {
			return err
		}
		if err := os.Symlink(rel, lp); err != nil {
			return err
		}
	}
	// time stamps last (deep to shallow so that parents keep theirs)
	sort.SliceStable(sorted, func(i, j int) bool { return len(sorted[i].P) > len(sorted[j].P) })
	for _, n := range sorted {
		if n.Mtime != 0 && n.Kind != "link" {
			t := time.Unix(n.Mtime, 0)
			if n.Mtime == -1 { // the epoch itself
				t = time.Unix(0, 0)
			}
			if err := os.Chtimes(segPath(w.root, n.P), t, t); err != nil {
				return err
			}
		}
	}
	// remember facts the snapshot cannot re-derive cheaply
	for _, n := range nodes {
		if n.Kind != "file" {
			continue
		}
		fp := segPath(w.root, n.P)
		st, err := os.Lstat(fp)
		if err != nil {
			return err
		}
		w.carry[fp] = carryInfo{node: n, size: st.Size(), mtime: st.ModTime(), ino: st.Sys().(*syscall.Stat_t).Ino}
	}
	return nil
}

func (w *world) writeFile(n nodeJ) error {
	fp := segPath(w.root, n.P)
	size := unpos(n.Size)
	if n.Enc != nil {
		return w.writeEncImage(fp, n)
	}
	if n.Raw != "" {
		b, err := hex.DecodeString(n.Raw)
		if err != nil {
			return err
		}
		w.reg.add(&memSource{name: n.Cid, data: b})
		return os.WriteFile(fp, b, 0o644)
	}
	src := &patSource{name: n.Cid, id: srcID(n.Cid), size: size}
	for _, is := range n.Islands {
		src.islands = append(src.islands, island{unpos(is[0]), unpos(is[1])})
	}
	if n.Islands != nil && src.islands == nil {
		src.islands = []island{}
	}
	for _, m := range n.Marks {
		src.patches = append(src.patches, patch{off: unpos(m.Off), data: markBytes[m.Tag]})
	}
	if n.Cid != "" {
		if old := w.reg.get(n.Cid); old != nil && old.Size() != size {
			return fmt.Errorf("content id %q reused with another size", n.Cid)
		}
		w.reg.add(src)
	}
	f, err := os.Create(fp)
	if err != nil {
		return err
	}
	defer f.Close()
	if size == 0 {
		return nil
	}
	if err := f.Truncate(size); err != nil {
		return err
	}
	writeRange := func(off, n int64) error {
		buf := make([]byte, 1<<20)
		for n > 0 {
			m := int64(len(buf))
			if m > n {
				m = n
			}
			src.ReadAt(buf[:m], off)
			if _, err := f.WriteAt(buf[:m], off); err != nil {
				return err
			}
			off += m
			n -= m
		}
		return nil
	}
	if src.islands == nil {
		if err := writeRange(0, size); err != nil {
			return err
		}
	} else {
		for _, is := range src.islands {
			if err := writeRange(is.off, min(is.n, size-is.off)); err != nil {
				return err
			}
		}
		for _, p := range src.patches {
			if _, err := f.WriteAt(p.data, p.off); err != nil {
				return err
			}
		}
	}
	return nil
}

// snapshot re-reads the tree below root. fingerprint changes iff anything
// observable (names, kinds, sizes, link targets, times, inode numbers) changed.
func (w *world) snapshot() ([]nodeJ, string, error) { return w.snapshotAt(nil, nil) }

// snapshotAt re-reads the subtree at path sub (nil: the whole tree).  only (optional) says which chunk names may
// explain file contents there (concurrent mode: a connection's private files consist of that connection's uploads).
func (w *world) snapshotAt(sub []string, only func(name string) bool) ([]nodeJ, string, error) {
	var nodes []nodeJ
	h := sha256.New()
	var walk func(dir string, p []string) error
	walk = func(dir string, p []string) error {
		st, err := os.Lstat(dir)
		if err != nil {
			return err
		}
		sys := st.Sys().(*syscall.Stat_t)
		n := nodeJ{P: append([]string{}, p...), Target: []string{}, Marks: []markJ{}, Size: pos(0), Vsize: pos(0),
			Mtime: st.ModTime().Unix(), Ctime: sys.Ctim.Sec}
		fmt.Fprintf(h, "%q|%v|%d|%d|%d|%d\n", p, st.Mode().Type(), st.Size(), st.ModTime().UnixNano(), sys.Ino, sys.Ctim.Nano())
		switch {
		case st.Mode()&os.ModeSymlink != 0:
			n.Kind = "link"
			t, err := os.Readlink(dir)
			if err != nil {
				return err
			}
			fmt.Fprintf(h, "->%s\n", t)
			abs := t
			if !filepath.IsAbs(t) {
				abs = filepath.Join(filepath.Dir(dir), t)
			}
			rel, err := filepath.Rel(w.root, abs)
			if err != nil || rel == ".." || strings.HasPrefix(rel, "../") {
				n.Target = []string{"~outside"}
			} else if rel == "." {
				n.Target = []string{}
			} else {
				for _, s := range strings.Split(rel, "/") {
					n.Target = append(n.Target, sanitize(s))
				}
			}
			nodes = append(nodes, n)
		case st.IsDir():
			n.Kind = "dir"
			nodes = append(nodes, n)
			ents, err := os.ReadDir(dir)
			if err != nil {
				return err
			}
			for _, e := range ents {
				if err := walk(filepath.Join(dir, e.Name()), append(p, sanitize(e.Name()))); err != nil {
					return err
				}
			}
		default:
			n.Kind = "file"
			n.Size = pos(st.Size())
			n.Vsize = n.Size
			ci, known := w.carry[dir]
			if known && ci.size == st.Size() && ci.mtime.Equal(st.ModTime()) && ci.ino == sys.Ino {
				n.Cid, n.Vcid, n.Vsize, n.Marks = ci.node.Cid, ci.node.Vcid, ci.node.Vsize, ci.node.Marks
				n.Any = ci.node.Any
				if n.Marks == nil {
					n.Marks = []markJ{}
				}
			} else if st.Size() > w.big {
				n.Cid = "?big-changed"
				n.Vcid = n.Cid
			} else {
				b, err := os.ReadFile(dir)
				if err != nil {
					return err
				}
				n.Cid = w.decompose(b, only)
				n.Vcid = n.Cid
				if strings.Contains(n.Cid, "+") {
					w.reg.get(n.Cid) // make the concatenation a known source for later reads
				}
				h.Write([]byte(n.Cid))
			}
			n.Unk = strings.HasPrefix(n.Cid, "?")
			nodes = append(nodes, n)
		}
		return nil
	}
	if err := walk(segPath(w.root, sub), append([]string{}, sub...)); err != nil {
		return nil, "", err
	}
	return nodes, hex.EncodeToString(h.Sum(nil)), nil
}

// decompose names the content of a file as a '+'-joined list of known chunks
// (depth-first with backtracking: chunks may share prefixes).
func (w *world) decompose(b []byte, only func(name string) bool) string {
	if len(b) == 0 {
		return ""
	}
	type cand struct {
		name string
		data []byte
	}
	var cands []cand
	for _, name := range w.reg.names() {
		if strings.Contains(name, "+") || (only != nil && !only(name)) {
			continue
		}
		s := w.reg.get(name)
		sz := s.Size()
		if sz == 0 || sz > int64(len(b)) {
			continue
		}
		buf := make([]byte, sz)
		s.ReadAt(buf, 0)
		cands = append(cands, cand{name, buf})
	}
	sort.SliceStable(cands, func(i, j int) bool { return len(cands[i].data) > len(cands[j].data) })
	dead := map[int]bool{}
	var parts []string
	var rec func(i int) bool
	rec = func(i int) bool {
		if i == len(b) {
			return true
		}
		if dead[i] {
			return false
		}
		for _, c := range cands {
			if len(c.data) <= len(b)-i && bytes.Equal(c.data, b[i:i+len(c.data)]) {
				parts = append(parts, c.name)
				if rec(i + len(c.data)) {
					return true
				}
				parts = parts[:len(parts)-1]
			}
		}
		dead[i] = true
		return false
	}
	if rec(0) {
		return strings.Join(parts, "+")
	}
	sum := sha256.Sum256(b)
	if os.Getenv("VERIFH_DEBUG") != "" {
		fmt.Fprintf(os.Stderr, "decompose failed (%d bytes): % x\n", len(b), b[:min(len(b), 32)])
	}
	return "?" + hex.EncodeToString(sum[:6])
}

// sentinelDigest hashes everything in base except the root itself.
func (w *world) sentinelDigest() (string, error) {
	h := sha256.New()
	err := filepath.Walk(w.base, func(p string, info os.FileInfo, err error) error {
		if err != nil {
			return err
		}
		if p == w.root {
			return filepath.SkipDir
		}
		sys := info.Sys().(*syscall.Stat_t)
		mt := info.ModTime().UnixNano()
		if p == w.base {
			mt = 0 // the base directory's own mtime changes when the root is created/removed
		}
		fmt.Fprintf(h, "%s|%v|%d|%d|%d\n", p, info.Mode(), info.Size(), mt, sys.Ino)
		if info.Mode().IsRegular() {
			f, err := os.Open(p)
			if err != nil {
				return err
			}
			defer f.Close()
			io.Copy(h, f)
		}
		return nil
	})
	return hex.EncodeToString(h.Sum(nil)), err
}
