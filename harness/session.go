package main

// `verifh session`: run scripted sessions against the real server stack
// (server.Server + handler.Handler + fs.FS over afero.BasePathFs(OsFs, root)),
// in process, over in-memory connections, and record one ndjson event per
// request for validation by spec/Ps3NetSrvTrace.tla.

import (
	"bufio"
	"bytes"
	"crypto/sha256"
	"encoding/hex"
	"encoding/json"
	"fmt"
	"io"
	"log/slog"
	"math/rand"
	"net"
	"os"
	"path/filepath"
	"runtime/pprof"
	"strings"
	"sync"
	"time"

	"github.com/spf13/afero"

	"github.com/xakep666/ps3netsrv-go/internal/copier"
	"github.com/xakep666/ps3netsrv-go/internal/handler"
	pfs "github.com/xakep666/ps3netsrv-go/pkg/fs"
	"github.com/xakep666/ps3netsrv-go/pkg/server"
)

type viewJ struct {
	Vk   string     `json:"vk"`
	P    []string   `json:"p"`
	Mask [][2]int64 `json:"mask,omitempty"`
}

type reqJ struct {
	Op              string `json:"op"`
	Path            string `json:"path,omitempty"`
	PathHex         string `json:"pathHex,omitempty"`
	Limit           uint64 `json:"limit,omitempty"`
	Off             uint64 `json:"off,omitempty"`
	Start           uint64 `json:"start,omitempty"`
	Count           uint64 `json:"count,omitempty"`
	Plen            int    `json:"plen,omitempty"`
	Chunk           string `json:"chunk,omitempty"`
	PayloadHex      string `json:"payloadHex,omitempty"`
	Stream          string `json:"stream,omitempty"`          // hex: raw bytes, framed by the protocol tables
	StallWriteAfter int64  `json:"stallWriteAfter,omitempty"` // the client stops reading after this many bytes of the reply and stays silent (read-type requests)
	AbortAfter      int64  `json:"abortAfter,omitempty"`      // the client resets the connection after receiving this many bytes of the reply (read-type requests only)
	Announce        uint64 `json:"announce,omitempty"`        // payload ops: the length field says this (> bytes sent): the frame is truncated by construction
	Cut             int    `json:"cut,omitempty"`             // send only the first Cut bytes of the frame (>0)
	Stall           bool   `json:"stall,omitempty"`           // with Cut: stay silent afterwards instead of hanging up (the read timeout must end the connection)
	DelayMs         int    `json:"delayMs,omitempty"`         // wait before sending this request
}

type connJ struct {
	ID     int    `json:"id"`
	Reqs   []reqJ `json:"reqs"`
	End    string `json:"end,omitempty"` // close (default) | reset | leave
	Remote string `json:"remote,omitempty"`
}

type worldJ struct {
	Name             string         `json:"name"`
	Aw               bool           `json:"aw"`
	RootSpelling     string         `json:"rootSpelling,omitempty"` // abs | rel | dot | trailing
	RootName         string         `json:"rootName,omitempty"`
	Sentinel         bool           `json:"sentinel,omitempty"`
	Nodes            []nodeJ        `json:"nodes"`
	Views            []viewJ        `json:"views,omitempty"`
	Conns            []connJ        `json:"conns"`
	Schedule         string         `json:"schedule,omitempty"` // seq | rr | conc
	LedgerBelow      bool           `json:"ledgerBelow,omitempty"`
	Faults           map[int]string `json:"faults,omitempty"`
	ReadTimeoutMs    int            `json:"readTimeoutMs,omitempty"`
	BufferSize       int64          `json:"bufferSize,omitempty"`
	Probe            bool           `json:"probe,omitempty"`
	AllViews         bool           `json:"allViews,omitempty"`         // reference images for every directory of the tree, both modes
	ReadChunk        int            `json:"readChunk,omitempty"`        // deliver request bytes to the server in pieces of at most this size
	Quiesce          bool           `json:"quiesce,omitempty"`          // after all connections ended: report leftover goroutines / handles
	WriteDelayUs     int            `json:"writeDelayUs,omitempty"`     // every server-side Write blocks this long (slow peer)
	AcceptFaultEvery int            `json:"acceptFaultEvery,omitempty"` // every n-th Accept of the listener fails with a temporary error (EMFILE-like)
	LogOps           bool           `json:"logOps,omitempty"`
}

type scriptJ struct {
	Worlds []worldJ `json:"worlds"`
}

type emitter struct {
	mu sync.Mutex
	w  *bufio.Writer
	n  int
}

func (e *emitter) emit(v interface{}) {
	b, err := json.Marshal(v)
	if err != nil {
		panic(err)
	}
	e.mu.Lock()
	e.w.Write(b)
	e.w.WriteByte('\n')
	e.w.Flush()
	e.n++
	e.mu.Unlock()
}

type sessionEnv struct {
	pt        *protoTable
	w         *world
	wj        *worldJ
	ledger    *ledgerFs
	ln        *memListener
	reg       *registry
	em        *emitter
	lastFP    string
	srvErr    chan error
	index     int
	viewGen   int
	libPanics []string
	stall     bool
	chunkNo   int
	chunkTag  map[string]byte

	// concurrent mode: this env belongs to one connection
	hung        bool            // a request of this world got no answer within the waiting time
	wstall      bool            // the request in flight has a peer that stops reading the reply
	priv        []string        // its private subtree
	ownChunks   map[string]bool // names of the payloads this connection uploaded
	shared      []nodeJ         // the static rest of the tree
	staticViews []map[string]interface{}
	barrier     *barrier
}

// snap re-reads the tree: everything, or (concurrent mode) the static shared part
// plus this connection's private subtree.
func (env *sessionEnv) snap() ([]nodeJ, string, error) {
	if env.priv == nil {
		return env.w.snapshot()
	}
	// only this connection's subtree is walked (the others are changing under their owners' hands), and only this
	// connection's uploads may explain what is found there
	var all []nodeJ
	if _, serr := os.Lstat(segPath(env.w.root, env.priv)); serr == nil { // (a world without private subtrees has nothing to re-read)
		var err error
		all, _, err = env.w.snapshotAt(env.priv, func(name string) bool { return env.ownChunks[name] })
		if err != nil {
			return nil, "", err
		}
	}
	nodes := append([]nodeJ{}, env.shared...)
	h := sha256.New()
	for _, n := range all {
		nodes = append(nodes, n)
		fmt.Fprintf(h, "%v|%s|%v|%s|%d|%d\n", n.P, n.Kind, n.Size, n.Cid, n.Mtime, n.Ctime)
	}
	return nodes, hex.EncodeToString(h.Sum(nil)), nil
}

func mutatingOp(op string) bool {
	switch op {
	case "CREATE_FILE", "WRITE_FILE", "DELETE_FILE", "MKDIR", "RMDIR", "STAT_FILE", "GET_DIR_SIZE":
		return true // (STAT / GET_DIR_SIZE are cheap check points: the driver ends every session with them)
	}
	return false
}

func equalSegs(a, b []string) bool {
	if len(a) != len(b) {
		return false
	}
	for i := range a {
		if a[i] != b[i] {
			return false
		}
	}
	return true
}

type barrier struct {
	mu    sync.Mutex
	cond  *sync.Cond
	n     int
	count int
	gen   int
}

func newBarrier(n int) *barrier {
	b := &barrier{n: n}
	b.cond = sync.NewCond(&b.mu)
	return b
}

func (b *barrier) wait() {
	b.mu.Lock()
	defer b.mu.Unlock()
	g := b.gen
	b.count++
	if b.count >= b.n {
		b.count = 0
		b.gen++
		b.cond.Broadcast()
		return
	}
	for g == b.gen {
		b.cond.Wait()
	}
}

func (b *barrier) leave() {
	b.mu.Lock()
	b.n--
	if b.count >= b.n && b.n > 0 {
		b.count = 0
		b.gen++
		b.cond.Broadcast()
	}
	b.mu.Unlock()
}

// runConcurrent: every connection runs its script in its own goroutine. Each
// gets its own trace (World line = shared tree + its private subtree
// "p<id>"), validated on its own against the single-connection specification.
func (env *sessionEnv) runConcurrent(nodes []nodeJ, views []map[string]interface{}) error {
	wj := env.wj
	isPriv := func(p []string) bool { return len(p) > 0 && strings.HasPrefix(p[0], "priv") }
	var shared []nodeJ
	for _, n := range nodes {
		if !isPriv(n.P) {
			shared = append(shared, n)
		}
	}
	bar := newBarrier(len(wj.Conns))
	bufs := make([]*bytes.Buffer, len(wj.Conns))
	var wg sync.WaitGroup
	for i := range wj.Conns {
		cj := &wj.Conns[i]
		bufs[i] = &bytes.Buffer{}
		sub := *env
		sub.em = &emitter{w: bufio.NewWriter(bufs[i])}
		sub.priv = []string{fmt.Sprintf("priv%d", cj.ID)}
		sub.shared = shared
		sub.staticViews = views
		sub.barrier = bar
		sub.chunkTag = nil
		sub.ownChunks = map[string]bool{}
		sub.chunkNo = cj.ID * 16
		first, fp, err := sub.snap()
		if err != nil {
			return err
		}
		sub.lastFP = fp
		sub.em.emit(map[string]interface{}{"ev": "World", "name": fmt.Sprintf("%s/c%d", wj.Name, cj.ID), "aw": wj.Aw, "nodes": first,
			"views": views, "root": wj.RootSpelling, "index": env.index, "timeoutMs": wj.ReadTimeoutMs, "libPanics": nonNil(env.libPanics)})
		wg.Add(1)
		go func(sub *sessionEnv, cj *connJ) {
			defer wg.Done()
			defer bar.leave()
			c := sub.connect(cj)
			alive := true
			for j := range cj.Reqs {
				if cj.Reqs[j].Op == "BARRIER" {
					bar.wait()
					continue
				}
				if !alive {
					continue
				}
				alive = sub.doReq(c, cj, &cj.Reqs[j])
			}
			if alive {
				sub.endConn(c, cj)
			}
			sub.em.w.Flush()
		}(&sub, cj)
	}
	wg.Wait()
	for _, b := range bufs {
		env.em.mu.Lock()
		env.em.w.Write(b.Bytes())
		env.em.w.Flush()
		env.em.mu.Unlock()
	}
	return nil
}

func cmdSession(args []string) error {
	var protoPath, scriptPath, outPath string
	for i := 0; i < len(args)-1; i += 2 {
		switch args[i] {
		case "-proto":
			protoPath = args[i+1]
		case "-script":
			scriptPath = args[i+1]
		case "-out":
			outPath = args[i+1]
		case "-iso":
			if err := loadIso(args[i+1]); err != nil {
				return err
			}
		}
	}
	pt, err := loadProto(protoPath)
	if err != nil {
		return err
	}
	raw, err := os.ReadFile(scriptPath)
	if err != nil {
		return err
	}
	var sc scriptJ
	if err := json.Unmarshal(raw, &sc); err != nil {
		return err
	}
	of, err := os.Create(outPath)
	if err != nil {
		return err
	}
	defer of.Close()
	em := &emitter{w: bufio.NewWriterSize(of, 1<<20)}
	defer em.w.Flush()
	slog.SetDefault(slog.New(slog.NewTextHandler(io.Discard, nil)))
	for i := range sc.Worlds {
		if err := runWorld(pt, &sc.Worlds[i], em, i); err != nil {
			return fmt.Errorf("world %d (%s): %w", i, sc.Worlds[i].Name, err)
		}
	}
	return nil
}

func runWorld(pt *protoTable, wj *worldJ, em *emitter, index int) error {
	base, err := os.MkdirTemp("", "vw-")
	if err != nil {
		return err
	}
	defer os.RemoveAll(base)
	base, _ = filepath.EvalSymlinks(base)
	rootName := wj.RootName
	if rootName == "" {
		rootName = "g"
	}
	reg := newRegistry()
	w := newWorld(base, rootName, reg)
	if err := w.materialise(wj.Nodes, wj.Sentinel); err != nil {
		return fmt.Errorf("materialise: %w", err)
	}

	// the root as the operator would spell it
	rootArg := w.root
	oldwd, _ := os.Getwd()
	defer os.Chdir(oldwd)
	switch wj.RootSpelling {
	case "", "abs":
	case "trailing":
		rootArg = w.root + "/"
	case "rel":
		if err := os.Chdir(base); err != nil {
			return err
		}
		rootArg = rootName
	case "dot":
		if err := os.Chdir(w.root); err != nil {
			return err
		}
		rootArg = "."
	case "dotslash":
		if err := os.Chdir(base); err != nil {
			return err
		}
		rootArg = "./" + rootName + "/."
	default:
		return fmt.Errorf("unknown root spelling %q", wj.RootSpelling)
	}

	// the same stack cmd/ps3netsrv-go/server.go builds
	var inner afero.Fs
	var ledger *ledgerFs
	if wj.LedgerBelow {
		ledger = newLedgerFs(afero.NewOsFs())
		inner = afero.NewBasePathFs(ledger, rootArg)
	} else {
		ledger = newLedgerFs(afero.NewBasePathFs(afero.NewOsFs(), rootArg))
		inner = ledger
	}
	ledger.logOps = wj.LogOps || wj.LedgerBelow
	if len(wj.Faults) > 0 {
		ledger.faults = &faultPlan{At: wj.Faults}
	}
	var cop *copier.Copier
	bs := wj.BufferSize
	if bs == 0 {
		bs = 64 * 1024
	}
	if bs > 0 {
		cop = copier.NewPooledCopier(bs)
	} else {
		cop = copier.NewCopier()
	}
	srv := &server.Server[handler.State]{
		Handler: &handler.Handler{
			Fs:         &pfs.FS{Fs: inner},
			AllowWrite: wj.Aw,
			Copier:     cop,
		},
		ReadTimeout: time.Duration(wj.ReadTimeoutMs) * time.Millisecond,
		Logger:      slog.Default(),
	}
	ln := newMemListener()
	ln.failEvery = wj.AcceptFaultEvery
	env := &sessionEnv{pt: pt, w: w, wj: wj, ledger: ledger, ln: ln, reg: reg, em: em, srvErr: make(chan error, 1), index: index}
	go func() { env.srvErr <- srv.Serve(ln) }()
	defer ln.Close()

	// reference content of the generated images the script will open
	viewsOut := env.buildViews()

	nodes, fp, err := w.snapshot()
	if err != nil {
		return err
	}
	env.lastFP = fp
	var sentBefore string
	if wj.Sentinel {
		sentBefore, _ = w.sentinelDigest()
	}
	if wj.Schedule != "conc" {
		em.emit(map[string]interface{}{"ev": "World", "name": wj.Name, "aw": wj.Aw, "nodes": nodes, "views": viewsOut,
			"root": wj.RootSpelling, "index": index, "timeoutMs": wj.ReadTimeoutMs, "libPanics": nonNil(env.libPanics)})
	}

	switch wj.Schedule {
	case "", "seq":
		for i := range wj.Conns {
			c := env.connect(&wj.Conns[i])
			for j := range wj.Conns[i].Reqs {
				if !env.doReq(c, &wj.Conns[i], &wj.Conns[i].Reqs[j]) {
					break
				}
			}
			env.endConn(c, &wj.Conns[i])
		}
	case "rr":
		conns := make([]*memConn, len(wj.Conns))
		alive := make([]bool, len(wj.Conns))
		for i := range wj.Conns {
			conns[i] = env.connect(&wj.Conns[i])
			alive[i] = true
		}
		for j := 0; ; j++ {
			any := false
			for i := range wj.Conns {
				if j < len(wj.Conns[i].Reqs) && alive[i] {
					any = true
					alive[i] = env.doReq(conns[i], &wj.Conns[i], &wj.Conns[i].Reqs[j])
				}
			}
			if !any {
				break
			}
		}
		for i := range wj.Conns {
			if alive[i] {
				env.endConn(conns[i], &wj.Conns[i])
			}
		}
	case "conc":
		if err := env.runConcurrent(nodes, viewsOut); err != nil {
			return err
		}
	default:
		return fmt.Errorf("unknown schedule %q", wj.Schedule)
	}

	if wj.Probe {
		env.probe()
	}
	if wj.Quiesce {
		// every connection of this world has ended: nothing may be left behind
		deadline := time.Now().Add(3 * time.Second)
		for time.Now().Before(deadline) && (serveConnGoroutines() > 0 || ledger.OpenCount(-1) > 0) {
			time.Sleep(5 * time.Millisecond)
		}
		if os.Getenv("VERIFH_DEBUG") != "" && serveConnGoroutines() > 0 {
			var buf bytes.Buffer
			pprof.Lookup("goroutine").WriteTo(&buf, 2)
			fmt.Fprintln(os.Stderr, buf.String())
			buf.Reset()
			pprof.Lookup("goroutine").WriteTo(&buf, 1)
			fmt.Fprintln(os.Stderr, buf.String())
		}
		em.emit(map[string]interface{}{"ev": "Quiesce", "gor": serveConnGoroutines(), "open": ledger.OpenCount(-1), "paths": nonNil(ledger.OpenPaths())})
	}
	if wj.Sentinel {
		after, _ := w.sentinelDigest()
		em.emit(map[string]interface{}{"ev": "Sentinel", "same": after == sentBefore})
	}
	if wj.LogOps && !wj.LedgerBelow {
		ops := ledger.TakeOps()
		if ops == nil {
			ops = []fsOp{}
		}
		em.emit(map[string]interface{}{"ev": "FsOps", "ops": ops})
	}
	if wj.LedgerBelow {
		// every real path the stack touched, as segments relative to the scratch base
		seen := map[string]bool{}
		var paths [][]string
		for _, op := range ledger.TakeOps() {
			p := op.Path
			if !filepath.IsAbs(p) {
				wd, _ := os.Getwd()
				p = filepath.Join(wd, p)
			}
			p = filepath.Clean(p)
			if seen[p] {
				continue
			}
			seen[p] = true
			rel, err := filepath.Rel(base, p)
			if err != nil {
				rel = "~unrelated"
			}
			paths = append(paths, splitSegs([]byte(rel)))
		}
		if paths == nil {
			paths = [][]string{}
		}
		em.emit(map[string]interface{}{"ev": "RealPaths", "rootName": rootName, "paths": paths})
	}
	return nil
}

// buildViews (re)computes, through the library, the reference image of every
// declared virtual-image path for the tree as it is now.
func (env *sessionEnv) buildViews() []map[string]interface{} {
	env.viewGen++
	viewsOut := []map[string]interface{}{}
	decl := env.wj.Views
	if env.wj.AllViews {
		decl = nil
		filepath.Walk(env.w.root, func(p string, info os.FileInfo, err error) error {
			if err != nil || !info.IsDir() {
				return nil
			}
			rel, _ := filepath.Rel(env.w.root, p)
			var segs []string
			if rel != "." {
				segs = strings.Split(rel, "/")
			}
			decl = append(decl, viewJ{Vk: "dvd", P: segs}, viewJ{Vk: "ps3", P: segs})
			return nil
		})
	}
	for _, v := range decl {
		name := fmt.Sprintf("viso:%s:/%s#%d", v.Vk, strings.Join(v.P, "/"), env.viewGen)
		var ref *pfs.VirtualISO
		var data []byte
		var err error
		func() {
			defer func() {
				if p := recover(); p != nil {
					err = fmt.Errorf("library panic: %v", p)
					env.libPanics = append(env.libPanics, fmt.Sprint(p))
				}
			}()
			ref, err = pfs.NewVirtualISO(afero.NewBasePathFs(afero.NewOsFs(), env.w.root), "/"+filepath.Join(v.P...), v.Vk == "ps3")
			if err != nil {
				return
			}
			data, err = io.ReadAll(ref)
			ref.Close()
		}()
		if ref == nil {
			continue // no such image: the spec expects the open to fail
		}
		if err != nil {
			// the library view cannot be read sequentially: no reference; recorded so that TLC rejects an open
			viewsOut = append(viewsOut, map[string]interface{}{"vk": v.Vk, "p": sanitizeAll(v.P), "cid": "?unreadable:" + err.Error(), "size": pos(-1)})
			continue
		}
		mask := v.Mask
		if mask == nil {
			mask = varMask(v.Vk == "ps3")
		}
		env.reg.add(&memSource{name: name, data: data, mask: mask})
		viewsOut = append(viewsOut, map[string]interface{}{"vk": v.Vk, "p": sanitizeAll(v.P), "cid": name, "size": pos(int64(len(data)))})
	}
	return viewsOut
}

func sanitizeAll(s []string) []string {
	out := make([]string, len(s))
	for i, x := range s {
		out[i] = sanitize(x)
	}
	return out
}

func nonNil(s []string) []string {
	if s == nil {
		return []string{}
	}
	return s
}

func (env *sessionEnv) connect(cj *connJ) *memConn {
	remote := &net.TCPAddr{IP: net.IPv4(127, 0, 0, 1), Port: 40000 + cj.ID}
	if cj.Remote != "" {
		if ip := net.ParseIP(cj.Remote); ip != nil {
			remote.IP = ip
		}
	}
	c := newMemConn(cj.ID, remote)
	c.readChunk = env.wj.ReadChunk
	c.writeDelay = time.Duration(env.wj.WriteDelayUs) * time.Microsecond
	env.ln.Dial(c)
	c.WaitQuiescent(10 * time.Second)
	env.em.emit(map[string]interface{}{"ev": "Connect", "c": cj.ID, "arms": c.TakeArms()})
	return c
}

// chunkBytes: deterministic payload for a named chunk. The first byte is unique
// per chunk within a world (tag), which makes every concatenation of chunks
// uniquely decodable by the snapshot's decomposition.
func chunkBytes(name string, n int, tag byte) []byte {
	r := rand.New(rand.NewSource(int64(srcID(name))<<8 | 1))
	b := make([]byte, n)
	r.Read(b)
	if n > 0 {
		b[0] = tag
	}
	return b
}

// buildFrame returns the bytes to send and the abstract request for the trace.
func (env *sessionEnv) buildFrame(r *reqJ) ([]byte, map[string]interface{}, error) {
	req := map[string]interface{}{"op": r.Op, "path": []string{}, "limit": pos(0), "off": pos(0), "start": 0, "count": 0,
		"plen": 0, "chunk": "", "hugeArgs": false, "of": "", "cut": 0, "bad": []string{}}
	od := env.pt.byName[r.Op]
	if od == nil {
		return nil, nil, fmt.Errorf("op %q not in protocol table", r.Op)
	}
	args := map[string]uint64{}
	var follow []byte
	switch od.Follow {
	case "path":
		follow = []byte(r.Path)
		if r.PathHex != "" {
			b, err := hex.DecodeString(r.PathHex)
			if err != nil {
				return nil, nil, err
			}
			follow = b
		}
		req["path"] = splitSegs(follow)
		req["bad"] = badSegs(follow)
	case "payload":
		if r.PayloadHex != "" {
			b, err := hex.DecodeString(r.PayloadHex)
			if err != nil {
				return nil, nil, err
			}
			follow = b
		} else {
			// the same chunk name always means the same bytes (and first byte) within a world
			if env.chunkTag == nil {
				env.chunkTag = map[string]byte{}
			}
			tag, ok := env.chunkTag[r.Chunk]
			if !ok {
				env.chunkNo++
				tag = byte(env.chunkNo%255 + 1)
				env.chunkTag[r.Chunk] = tag
			}
			follow = chunkBytes(r.Chunk, r.Plen, tag)
		}
		if len(follow) > 0 {
			env.reg.add(&memSource{name: r.Chunk, data: follow})
			if env.ownChunks != nil {
				env.ownChunks[r.Chunk] = true
			}
		}
		req["plen"] = len(follow)
		req["chunk"] = r.Chunk
	}
	huge := false
	for _, f := range od.Tail {
		switch f.Name {
		case "limit":
			args["limit"] = r.Limit
			req["limit"] = posU(r.Limit)
			if r.Limit >= 1<<31 {
				huge = true
			}
		case "off":
			args["off"] = r.Off
			req["off"] = posU(r.Off)
			// (every 64-bit offset has a definite answer: beyond the end of the object)
		case "start":
			args["start"] = r.Start
			req["start"] = clampInt(r.Start)
			if r.Start >= 1<<29 {
				huge = true
			}
		case "count":
			args["count"] = r.Count
			req["count"] = clampInt(r.Count)
			if r.Count >= 1<<12 {
				huge = true
			}
		}
	}
	req["hugeArgs"] = huge
	if r.Announce > uint64(len(follow)) && od.Follow == "payload" {
		args["len"] = r.Announce
	}
	b, err := env.pt.encode(r.Op, args, follow)
	return b, req, err
}

func clampInt(v uint64) int64 {
	if v > 1<<31-1 {
		return 1<<31 - 1
	}
	return int64(v)
}

// doReq performs one scripted request; false when the connection is gone.
func (env *sessionEnv) doReq(c *memConn, cj *connJ, r *reqJ) bool {
	if env.hung {
		return false
	}
	if r.Stream != "" {
		b, err := hex.DecodeString(r.Stream)
		if err != nil {
			panic(err)
		}
		for _, fr := range env.pt.reframe(b) {
			if !env.doFrame(c, cj, fr) {
				return false
			}
		}
		return true
	}
	if r.Op == "BAD_OPCODE" {
		// a command whose opcode the protocol table does not know
		code := uint16(r.Start)
		if code == 0 {
			code = 0x1111
		}
		for env.pt.byCode[int(code)] != nil {
			code++
		}
		b := make([]byte, env.pt.CommandLen)
		b[0], b[1] = byte(code>>8), byte(code)
		return env.exchange(c, cj, "BAD_OPCODE", map[string]interface{}{"op": "BAD_OPCODE", "path": []string{}, "limit": pos(0), "off": pos(0),
			"start": 0, "count": 0, "plen": 0, "chunk": "", "hugeArgs": false, "of": "", "cut": 0, "bad": []string{}}, b, nil)
	}
	frameBytes, req, err := env.buildFrame(r)
	if err != nil {
		panic(err)
	}
	if r.DelayMs > 0 {
		time.Sleep(time.Duration(r.DelayMs) * time.Millisecond)
	}
	env.stall = r.Stall
	defer func() { env.stall = false }()
	if r.StallWriteAfter > 0 {
		// the peer neither reads the reply nor hangs up: the server must not wait for ever
		c.SetWindow(r.StallWriteAfter)
		env.wstall = true
		defer func() { env.wstall = false }()
		return env.exchange(c, cj, "ABORTED", map[string]interface{}{"op": "ABORTED", "path": []string{}, "limit": pos(0), "off": pos(0),
			"start": 0, "count": 0, "plen": 0, "chunk": "", "hugeArgs": false, "of": r.Op, "cut": 0, "bad": []string{}}, frameBytes, nil)
	}
	if r.AbortAfter > 0 {
		// the peer walks away in the middle of the reply: what it got is not judged, the connection is over
		c.ArmReset(r.AbortAfter)
		return env.exchange(c, cj, "ABORTED", map[string]interface{}{"op": "ABORTED", "path": []string{}, "limit": pos(0), "off": pos(0),
			"start": 0, "count": 0, "plen": 0, "chunk": "", "hugeArgs": false, "of": r.Op, "cut": 0, "bad": []string{}}, frameBytes, nil)
	}
	if r.Announce > 0 && r.Cut == 0 {
		if p, _ := req["plen"].(int); uint64(p) < r.Announce {
			r.Cut = len(frameBytes)
			frameBytes = append(frameBytes, 0) // never sent
		}
	}
	if r.Cut > 0 && r.Cut < len(frameBytes) {
		return env.exchange(c, cj, "TRUNCATED", map[string]interface{}{"op": "TRUNCATED", "path": []string{}, "limit": pos(0), "off": pos(0),
			"start": 0, "count": 0, "plen": 0, "chunk": "", "hugeArgs": false, "of": r.Op, "cut": r.Cut, "bad": []string{}}, frameBytes[:r.Cut], nil)
	}
	var hint *int64
	if _, ok := env.hasTail(r.Op, "off"); ok && r.Off < 1<<62 {
		h := int64(r.Off)
		hint = &h
	}
	return env.exchange(c, cj, r.Op, req, frameBytes, hint)
}

func (env *sessionEnv) hasTail(op, name string) (fieldDef, bool) {
	od := env.pt.byName[op]
	if od == nil {
		return fieldDef{}, false
	}
	for _, f := range od.Tail {
		if f.Name == name {
			return f, true
		}
	}
	return fieldDef{}, false
}

// doFrame sends a frame obtained by re-framing a raw byte stream.
func (env *sessionEnv) doFrame(c *memConn, cj *connJ, fr frame) bool {
	req := map[string]interface{}{"op": fr.Op, "path": []string{}, "limit": pos(0), "off": pos(0), "start": 0, "count": 0,
		"plen": 0, "chunk": "", "hugeArgs": false, "of": fr.Of, "cut": len(fr.Bytes), "bad": []string{}}
	var hint *int64
	if od := env.pt.byName[fr.Op]; od != nil {
		huge := false
		switch od.Follow {
		case "path":
			req["path"] = splitSegs(fr.Follow)
			req["bad"] = badSegs(fr.Follow)
		case "payload":
			name := fmt.Sprintf("raw%x", srcID(string(fr.Follow))^uint32(len(fr.Follow)))
			if len(fr.Follow) > 0 {
				env.reg.add(&memSource{name: name, data: append([]byte{}, fr.Follow...)})
			}
			req["plen"] = len(fr.Follow)
			req["chunk"] = name
		}
		for _, f := range od.Tail {
			v := fr.Args[f.Name]
			switch f.Name {
			case "limit":
				req["limit"] = posU(v)
				huge = huge || v >= 1<<31
			case "off":
				req["off"] = posU(v)
				huge = huge || v >= 1<<62
				if v < 1<<62 {
					h := int64(v)
					hint = &h
				}
			case "start":
				req["start"] = clampInt(v)
				huge = huge || v >= 1<<19
			case "count":
				req["count"] = clampInt(v)
				huge = huge || v >= 1<<12
			}
		}
		req["hugeArgs"] = huge
	}
	return env.exchange(c, cj, fr.Op, req, fr.Bytes, hint)
}

func (env *sessionEnv) exchange(c *memConn, cj *connJ, op string, req map[string]interface{}, frameBytes []byte, hint *int64) bool {
	env.ledger.SetOwner(cj.ID)
	faultsBefore := env.ledger.FaultsApplied()
	opsBefore := env.ledger.OpCount()
	c.Send(frameBytes)
	if env.wstall {
		c.WaitClosed(time.Duration(env.wj.ReadTimeoutMs)*time.Millisecond + 5*time.Second)
	}
	quiet := c.WaitQuiescent(30 * time.Second)
	if !quiet {
		env.hung = true // one unanswered request is enough for the verdict: the rest of this world is skipped
	}
	incomplete := op == "TRUNCATED"
	stalled := false
	if incomplete && quiet && !c.ServerClosed() {
		if env.stall {
			// stay silent: only the read timeout can end this
			stalled = true
			c.WaitClosed(time.Duration(env.wj.ReadTimeoutMs)*time.Millisecond + 5*time.Second)
		} else {
			// the server waits for the rest of the request; the client gives up
			c.ClientClose()
			c.WaitClosed(10 * time.Second)
		}
	}
	out := c.TakeOutput()
	closed := c.ServerClosed()
	if closed {
		env.awaitRelease(cj.ID)
	}
	decodeOp := op
	if of, _ := req["of"].(string); op == "TRUNCATED" && of != "" {
		decodeOp = of // a reply to a cut request is read with the layout of the request it answers
	}
	resp, payload := env.pt.decodeResp(decodeOp, out)
	if payload != nil {
		var runs []run
		switch {
		case len(payload) == 0:
			runs = []run{}
		case hint != nil:
			srcs := env.reg.matchAt(payload, *hint)
			if srcs == nil {
				// not the bytes at the requested offset of any source: say what they are instead
				runs = env.reg.describe(payload)
				if len(runs) == 1 && len(runs[0].Srcs) == 0 {
					runs[0].Off = pos(*hint)
				}
			} else {
				runs = []run{{Srcs: srcs, Off: pos(*hint), Len: len(payload)}}
			}
		default:
			block := 0
			if od := env.pt.byName[decodeOp]; od != nil {
				block = od.Block
			}
			runs = env.reg.describeBlocks(payload, block)
		}
		resp["runs"] = runs
	}
	ev := map[string]interface{}{"ev": "Req", "c": cj.ID, "req": req, "resp": resp, "closed": closed,
		"hang": !quiet, "consumed": c.Consumed(), "pending": c.Pending(),
		"faults": env.ledger.FaultsApplied() - faultsBefore, "fsops": env.ledger.OpCount() - opsBefore,
		"arms": c.TakeArms(), "stalled": stalled, "cutAfterMs": -1, "deadlineHit": false}
	if stalled {
		ev["cutAfterMs"], ev["deadlineHit"] = c.CutAfterMs()
	}
	ev["wstalled"] = env.wstall
	if env.wstall {
		ev["cutAfterMs"], ev["deadlineHit"] = c.WriteCutAfterMs()
	}
	var nodes []nodeJ
	var fp string
	var err error
	if env.priv != nil && !mutatingOp(op) && !closed {
		// concurrent mode: the tree is re-read after mutating requests and at the end of the connection only
		fp = env.lastFP
	} else {
		nodes, fp, err = env.snap()
	}
	if err != nil {
		ev["mut"] = true
		ev["tree"] = []nodeJ{}
		ev["views"] = []map[string]interface{}{}
		ev["snapErr"] = err.Error()
	} else if fp != env.lastFP {
		ev["mut"] = true
		ev["tree"] = nodes
		if env.priv == nil {
			ev["views"] = env.buildViews()
		} else {
			ev["views"] = env.staticViews
		}
		env.lastFP = fp
	} else {
		ev["mut"] = false
	}
	ev["handles"] = env.ledger.OpenCount(cj.ID)
	if env.priv != nil {
		ev["handles"] = -1 // concurrent connections: the ledger cannot attribute opens
	}
	if closed {
		ev["gor"] = serveConnGoroutines()
	}
	env.em.emit(ev)
	env.ledger.SetOwner(-1)
	return !closed
}

// awaitRelease gives the connection's goroutine time to run its deferred cleanup.
func (env *sessionEnv) awaitRelease(owner int) {
	deadline := time.Now().Add(3 * time.Second)
	for time.Now().Before(deadline) {
		if env.ledger.OpenCount(owner) == 0 {
			return
		}
		time.Sleep(2 * time.Millisecond)
	}
}

func (env *sessionEnv) endConn(c *memConn, cj *connJ) {
	if c.ServerClosed() {
		return
	}
	switch cj.End {
	case "leave":
		return
	case "reset":
		c.ClientReset()
	case "timeout":
		// stay silent: the server's read deadline must end the connection
	default:
		c.ClientClose()
	}
	ok := c.WaitClosed(10 * time.Second)
	env.awaitRelease(cj.ID)
	h := env.ledger.OpenCount(cj.ID)
	if env.priv != nil {
		h = 0
	}
	cut, hit := c.CutAfterMs()
	env.em.emit(map[string]interface{}{"ev": "Close", "c": cj.ID, "handles": h, "serverClosed": ok,
		"how": cj.End, "cutAfterMs": cut, "deadlineHit": hit, "arms": c.TakeArms()})
}

// probe: a fresh connection must still be served (STAT of the root answers).
func (env *sessionEnv) probe() {
	env.ledger.mu.Lock()
	env.ledger.faults = nil // the fault plan belongs to the sessions, not to the liveness probe
	env.ledger.mu.Unlock()
	c := newMemConn(9999, &net.TCPAddr{IP: net.IPv4(127, 0, 0, 1), Port: 49999})
	env.ln.Dial(c)
	b, _ := env.pt.encode("STAT_FILE", map[string]uint64{}, []byte("/"))
	c.Send(b)
	ok := c.WaitQuiescent(10 * time.Second)
	out := c.TakeOutput()
	resp, _ := env.pt.decodeResp("STAT_FILE", out)
	good := ok && !c.ServerClosed() && resp["k"] == "Stat" && resp["isdir"] == int64(1)
	c.ClientClose()
	c.WaitClosed(5 * time.Second)
	env.em.emit(map[string]interface{}{"ev": "Probe", "ok": good})
}

func serveConnGoroutines() int {
	var buf bytes.Buffer
	pprof.Lookup("goroutine").WriteTo(&buf, 1)
	return strings.Count(buf.String(), ").serveConn") // method of (*Server[...]); not this function's own name
}
