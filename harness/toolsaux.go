package main

// Auxiliary sub-commands for the C20 / C04 checks of the real CLI:
//   dumpiso  - write the library's image of a directory (one sequential read) to a file
//   encbuild - synthesise an encrypted image (+ key file) on disk
//   classify - describe a file produced by `decrypt` segment by segment against the stored image
//   cmpmask  - compare two image files outside the documented variable fields

import (
	"encoding/hex"
	"encoding/json"
	"fmt"
	"os"
	"path/filepath"

	"github.com/spf13/afero"

	pfs "github.com/xakep666/ps3netsrv-go/pkg/fs"
)

func argMap(args []string) map[string]string {
	m := map[string]string{}
	for i := 0; i < len(args)-1; i += 2 {
		m[args[i]] = args[i+1]
	}
	return m
}

func cmdDumpISO(args []string) error {
	a := argMap(args)
	v, err := pfs.NewVirtualISO(afero.NewOsFs(), a["-dir"], a["-ps3"] == "true")
	if err != nil {
		return fmt.Errorf("open: %w", err)
	}
	defer v.Close()
	st, _ := v.Stat()
	data, err := sequentialImage(v, st.Size()+(64<<20))
	if err != nil {
		return fmt.Errorf("read: %w", err)
	}
	return os.WriteFile(a["-out"], data, 0o644)
}

func cmdEncBuild(args []string) error {
	a := argMap(args)
	var sp encSpec
	if err := json.Unmarshal([]byte(a["-spec"]), &sp); err != nil {
		return err
	}
	if sp.PlainName == "" {
		sp.PlainName = "plain"
	}
	img, err := buildEncImage(sp)
	if err != nil {
		return err
	}
	if err := os.MkdirAll(filepath.Dir(a["-out"]), 0o755); err != nil {
		return err
	}
	if err := os.WriteFile(a["-out"], img.raw, 0o644); err != nil {
		return err
	}
	if k := a["-keyfile"]; k != "" {
		return os.WriteFile(k, []byte(sp.Key+"\n"), 0o644)
	}
	return nil
}

func cmdClassify(args []string) error {
	a := argMap(args)
	raw, err := os.ReadFile(a["-raw"])
	if err != nil {
		return err
	}
	got, err := os.ReadFile(a["-got"])
	if err != nil {
		return err
	}
	keys := map[string][]byte{}
	var ks map[string]string
	json.Unmarshal([]byte(a["-keys"]), &ks)
	for n, h := range ks {
		k, _ := hex.DecodeString(h)
		keys[n] = k
	}
	var cuts []int64
	json.Unmarshal([]byte(a["-cuts"]), &cuts)
	n := len(got)
	if n > len(raw) {
		n = len(raw)
	}
	out := map[string]interface{}{"rawLen": pos(int64(len(raw))), "gotLen": pos(int64(len(got))), "segs": classify(raw, 0, got[:n], cuts, keys)}
	b, _ := json.Marshal(out)
	return os.WriteFile(a["-out"], b, 0o644)
}

func cmdCmpMask(args []string) error {
	a := argMap(args)
	if err := loadIso(a["-iso"]); err != nil {
		return err
	}
	x, err := os.ReadFile(a["-a"])
	if err != nil {
		return err
	}
	y, err := os.ReadFile(a["-b"])
	if err != nil {
		return err
	}
	res := map[string]interface{}{"lenA": len(x), "lenB": len(y), "equal": len(x) == len(y) && equalMasked(x, y, 0, varMask(a["-ps3"] == "true"))}
	b, _ := json.Marshal(res)
	fmt.Println(string(b))
	return nil
}

// mkworld materialises a node list below <base>/g (no server involved).
func cmdMkWorld(args []string) error {
	a := argMap(args)
	raw, err := os.ReadFile(a["-nodes"])
	if err != nil {
		return err
	}
	var nodes []nodeJ
	if err := json.Unmarshal(raw, &nodes); err != nil {
		return err
	}
	w := newWorld(a["-base"], "g", newRegistry())
	return w.materialise(nodes, false)
}
