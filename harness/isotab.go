package main

// ISO 9660 field tables exported by TLC from spec/IsoFormat.tla (iso.json).

import (
	"encoding/json"
	"os"
)

type isoField struct {
	Name  string
	Off   int
	Width int
	Enc   string
}

type isoTable struct {
	Sector         int
	FirstDesc      int
	VolDesc        []isoField
	DirRecord      []isoField
	DirRecordName  int
	PathRecord     []isoField
	PathRecordName int
	FlagDir        int
	FlagMulti      int
	VarPlain       [][2]int64
	VarPs3         [][2]int64
	Ps3            struct{ RegionCount, RegionFirst, ConsoleID, ProductID int }
}

var isoTab *isoTable

func loadIso(path string) error {
	raw, err := os.ReadFile(path)
	if err != nil {
		return err
	}
	var j struct {
		Sector         int             `json:"sector"`
		FirstDesc      int             `json:"firstDesc"`
		VolDesc        [][]interface{} `json:"volDesc"`
		DirRecord      [][]interface{} `json:"dirRecord"`
		DirRecordName  int             `json:"dirRecordName"`
		PathRecord     [][]interface{} `json:"pathRecord"`
		PathRecordName int             `json:"pathRecordName"`
		FlagDir        int             `json:"flagDir"`
		FlagMulti      int             `json:"flagMulti"`
		VarPlain       [][2]int64      `json:"varPlain"`
		VarPs3         [][2]int64      `json:"varPs3"`
		Ps3            struct {
			RegionCount int `json:"regionCount"`
			RegionFirst int `json:"regionFirst"`
			ConsoleID   int `json:"consoleId"`
			ProductID   int `json:"productId"`
		} `json:"ps3"`
	}
	if err := json.Unmarshal(raw, &j); err != nil {
		return err
	}
	conv := func(l [][]interface{}) []isoField {
		var r []isoField
		for _, f := range l {
			r = append(r, isoField{f[0].(string), int(f[1].(float64)), int(f[2].(float64)), f[3].(string)})
		}
		return r
	}
	t := &isoTable{Sector: j.Sector, FirstDesc: j.FirstDesc, VolDesc: conv(j.VolDesc), DirRecord: conv(j.DirRecord),
		DirRecordName: j.DirRecordName, PathRecord: conv(j.PathRecord), PathRecordName: j.PathRecordName,
		FlagDir: j.FlagDir, FlagMulti: j.FlagMulti, VarPlain: j.VarPlain, VarPs3: j.VarPs3}
	t.Ps3.RegionCount, t.Ps3.RegionFirst, t.Ps3.ConsoleID, t.Ps3.ProductID = j.Ps3.RegionCount, j.Ps3.RegionFirst, j.Ps3.ConsoleID, j.Ps3.ProductID
	isoTab = t
	return nil
}

// varMask returns the documented variable byte ranges of a generated image.
func varMask(ps3 bool) [][2]int64 {
	if isoTab == nil {
		return nil
	}
	if ps3 {
		return isoTab.VarPs3
	}
	return isoTab.VarPlain
}
