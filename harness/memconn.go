package main

// In-memory net.Conn / net.Listener pair handed to the real server.Server.Serve.
//
// The client side can tell exactly when the server has consumed everything that
// was sent and is blocked waiting for more input (quiescence): at that moment
// the bytes written by the server since the last request are the complete
// response to it.  No timing guesses are involved.

import (
	"errors"
	"io"
	"net"
	"os"
	"sync"
	"time"
)

type memConn struct {
	mu   sync.Mutex
	cond *sync.Cond

	in           []byte // client -> server, not yet read by the server
	out          []byte // server -> client, not yet taken by the client
	clientClosed bool   // client sent FIN
	clientReset  bool   // client reset: server reads/writes fail
	serverClosed bool   // server called Close
	blocked      bool   // server is inside Read waiting for input
	consumed     int64  // total bytes the server has read
	written      int64
	deadline     time.Time
	deadlines    []time.Time // every SetReadDeadline value, in order
	deadlineAt   []time.Time // local time of each call
	readErr      error       // last error returned to the server from Read
	closedAt     time.Time
	timer        *time.Timer
	remote       net.Addr
	local        net.Addr
	id           int
	readChunk    int // > 0: a Read returns at most this many bytes (TCP segmentation)
	t0           time.Time
	armsTaken    int
	writeDelay   time.Duration // the peer drains slowly: every Write blocks this long before its bytes are taken
	resetAfter   int64         // >= 0: the peer resets the connection once it has received this many bytes in total (-1: never)
	window       int64         // >= 0: the peer stops reading once it has received this many bytes in total: further writes block (-1: never)
	wdeadline    time.Time     // write deadline set by the server
	wstallAt     time.Time     // when a write first blocked on the closed window
	wdeadlineHit bool          // a blocked write was ended by the write deadline
}

func newMemConn(id int, remote net.Addr) *memConn {
	c := &memConn{id: id, resetAfter: -1, window: -1, remote: remote, local: &net.TCPAddr{IP: net.IPv4(127, 0, 0, 1), Port: 38008}, t0: time.Now()}
	c.cond = sync.NewCond(&c.mu)
	return c
}

// ---- server side (net.Conn)

func (c *memConn) Read(p []byte) (int, error) {
	c.mu.Lock()
	defer c.mu.Unlock()
	for {
		if c.serverClosed {
			c.readErr = net.ErrClosed
			return 0, net.ErrClosed
		}
		if c.clientReset {
			c.readErr = errConnReset
			return 0, errConnReset
		}
		if len(c.in) > 0 {
			if c.readChunk > 0 && len(p) > c.readChunk {
				p = p[:c.readChunk]
			}
			n := copy(p, c.in)
			c.in = c.in[n:]
			c.consumed += int64(n)
			c.cond.Broadcast()
			return n, nil
		}
		if c.clientClosed {
			c.readErr = io.EOF
			return 0, io.EOF
		}
		if !c.deadline.IsZero() && !time.Now().Before(c.deadline) {
			c.readErr = os.ErrDeadlineExceeded
			return 0, os.ErrDeadlineExceeded
		}
		c.blocked = true
		c.cond.Broadcast()
		c.cond.Wait()
		c.blocked = false
	}
}

var errConnReset = errors.New("read: connection reset by peer")

func (c *memConn) Write(p []byte) (int, error) {
	if c.writeDelay > 0 {
		// like a full socket buffer: the caller's bytes stay in the caller's buffer while it waits
		time.Sleep(c.writeDelay)
	}
	c.mu.Lock()
	defer c.mu.Unlock()
	taken := 0
	for c.window >= 0 && c.written+int64(len(p)) > c.window {
		// the peer does not read any more: what fits is taken, the rest waits - for ever, or until the write deadline
		if k := int(c.window - c.written); k > 0 {
			c.out = append(c.out, p[:k]...)
			c.written += int64(k)
			p = p[k:]
			taken += k
		}
		if c.wstallAt.IsZero() {
			c.wstallAt = time.Now()
		}
		if c.serverClosed {
			return taken, net.ErrClosed
		}
		if c.clientReset {
			return taken, errConnReset
		}
		if !c.wdeadline.IsZero() && !time.Now().Before(c.wdeadline) {
			c.wdeadlineHit = true
			return taken, os.ErrDeadlineExceeded
		}
		c.mu.Unlock()
		time.Sleep(3 * time.Millisecond)
		c.mu.Lock()
	}
	if c.serverClosed {
		return 0, net.ErrClosed
	}
	if c.clientReset {
		return 0, errConnReset
	}
	if c.resetAfter >= 0 && c.written+int64(len(p)) > c.resetAfter {
		// the peer goes away in the middle of this write: a part is taken, then the connection is reset
		k := int(c.resetAfter - c.written)
		if k < 0 {
			k = 0
		}
		c.out = append(c.out, p[:k]...)
		c.written += int64(k)
		c.clientReset = true
		c.cond.Broadcast()
		return k, errConnReset
	}
	c.out = append(c.out, p...)
	c.written += int64(len(p))
	c.cond.Broadcast()
	return len(p), nil
}

// ArmReset: the client will reset the connection after receiving k more bytes.
func (c *memConn) ArmReset(k int64) {
	c.mu.Lock()
	c.resetAfter = c.written + k
	c.mu.Unlock()
}

func (c *memConn) Close() error {
	c.mu.Lock()
	defer c.mu.Unlock()
	if c.serverClosed {
		return net.ErrClosed
	}
	c.serverClosed = true
	c.closedAt = time.Now()
	c.cond.Broadcast()
	return nil
}

func (c *memConn) LocalAddr() net.Addr  { return c.local }
func (c *memConn) RemoteAddr() net.Addr { return c.remote }

func (c *memConn) SetDeadline(t time.Time) error { return c.SetReadDeadline(t) }
func (c *memConn) SetWriteDeadline(t time.Time) error {
	c.mu.Lock()
	c.wdeadline = t
	c.mu.Unlock()
	return nil
}

// SetWindow: the client will take k more bytes and then stop reading (a full socket buffer on both sides).
func (c *memConn) SetWindow(k int64) {
	c.mu.Lock()
	c.window = c.written + k
	c.mu.Unlock()
}

// WriteCutAfterMs: time from the first blocked write to the close of the connection, and whether a write deadline ended the write.
func (c *memConn) WriteCutAfterMs() (int64, bool) {
	c.mu.Lock()
	defer c.mu.Unlock()
	if c.wstallAt.IsZero() || c.closedAt.IsZero() {
		return -1, false
	}
	return c.closedAt.Sub(c.wstallAt).Milliseconds(), c.wdeadlineHit
}
func (c *memConn) SetReadDeadline(t time.Time) error {
	c.mu.Lock()
	defer c.mu.Unlock()
	if c.serverClosed {
		return net.ErrClosed
	}
	c.deadline = t
	c.deadlines = append(c.deadlines, t)
	c.deadlineAt = append(c.deadlineAt, time.Now())
	if c.timer != nil {
		c.timer.Stop()
		c.timer = nil
	}
	if !t.IsZero() {
		d := time.Until(t)
		if d < 0 {
			d = 0
		}
		c.timer = time.AfterFunc(d, func() {
			c.mu.Lock()
			c.cond.Broadcast()
			c.mu.Unlock()
		})
	}
	return nil
}

// ---- client side

// Send queues request bytes for the server.
func (c *memConn) Send(b []byte) {
	c.mu.Lock()
	c.in = append(c.in, b...)
	c.cond.Broadcast()
	c.mu.Unlock()
}

// WaitQuiescent blocks until the server has read all input and waits for more,
// or has closed the connection. It returns false on timeout (server busy/hung).
func (c *memConn) WaitQuiescent(timeout time.Duration) bool {
	deadline := time.Now().Add(timeout)
	t := time.AfterFunc(timeout, func() {
		c.mu.Lock()
		c.cond.Broadcast()
		c.mu.Unlock()
	})
	defer t.Stop()
	c.mu.Lock()
	defer c.mu.Unlock()
	for {
		if c.serverClosed || (c.blocked && len(c.in) == 0) {
			return true
		}
		if time.Now().After(deadline) {
			return false
		}
		c.cond.Wait()
	}
}

// WaitClosed blocks until the server closed the connection.
func (c *memConn) WaitClosed(timeout time.Duration) bool {
	deadline := time.Now().Add(timeout)
	t := time.AfterFunc(timeout, func() {
		c.mu.Lock()
		c.cond.Broadcast()
		c.mu.Unlock()
	})
	defer t.Stop()
	c.mu.Lock()
	defer c.mu.Unlock()
	for !c.serverClosed {
		if time.Now().After(deadline) {
			return false
		}
		c.cond.Wait()
	}
	return true
}

func (c *memConn) TakeOutput() []byte {
	c.mu.Lock()
	defer c.mu.Unlock()
	b := c.out
	c.out = nil
	return b
}

// TakeArms returns the SetReadDeadline calls since the last take: [call time, deadline] in ms since the connection was made.
func (c *memConn) TakeArms() [][2]int64 {
	c.mu.Lock()
	defer c.mu.Unlock()
	out := [][2]int64{}
	for i := c.armsTaken; i < len(c.deadlines); i++ {
		out = append(out, [2]int64{c.deadlineAt[i].Sub(c.t0).Milliseconds(), c.deadlines[i].Sub(c.t0).Milliseconds()})
	}
	c.armsTaken = len(c.deadlines)
	return out
}

// CutAfterMs: how long after the last arming the server closed the connection, and whether its last read failed on the deadline.
func (c *memConn) CutAfterMs() (int64, bool) {
	c.mu.Lock()
	defer c.mu.Unlock()
	if len(c.deadlineAt) == 0 || c.closedAt.IsZero() {
		return -1, false
	}
	return c.closedAt.Sub(c.deadlineAt[len(c.deadlineAt)-1]).Milliseconds(), errors.Is(c.readErr, os.ErrDeadlineExceeded)
}

func (c *memConn) ServerClosed() bool {
	c.mu.Lock()
	defer c.mu.Unlock()
	return c.serverClosed
}

func (c *memConn) Consumed() int64 {
	c.mu.Lock()
	defer c.mu.Unlock()
	return c.consumed
}

func (c *memConn) Pending() int {
	c.mu.Lock()
	defer c.mu.Unlock()
	return len(c.in)
}

// ClientClose: orderly FIN from the client.
func (c *memConn) ClientClose() {
	c.mu.Lock()
	c.clientClosed = true
	c.cond.Broadcast()
	c.mu.Unlock()
}

// ClientReset: abortive close (RST).
func (c *memConn) ClientReset() {
	c.mu.Lock()
	c.clientReset = true
	c.cond.Broadcast()
	c.mu.Unlock()
}

// ---- listener

type memListener struct {
	failEvery int // > 0: every failEvery-th Accept fails with a temporary error (the connection stays queued)
	accepts   int
	ch        chan net.Conn
	closed    chan struct{}
	once      sync.Once
}

func newMemListener() *memListener {
	return &memListener{ch: make(chan net.Conn, 1024), closed: make(chan struct{})}
}

// tempAcceptErr is what accept(2) returns when the process is momentarily out of descriptors (EMFILE):
// a net.Error that is temporary - the listener is fine, the next Accept may succeed.
type tempAcceptErr struct{}

func (tempAcceptErr) Error() string   { return "accept: too many open files (injected)" }
func (tempAcceptErr) Timeout() bool   { return false }
func (tempAcceptErr) Temporary() bool { return true }

func (l *memListener) Accept() (net.Conn, error) {
	select {
	case c := <-l.ch:
		if l.failEvery > 0 {
			l.accepts++
			if l.accepts%l.failEvery == 0 {
				// the connection stays queued (as in the kernel's backlog); this call fails
				go func() { l.ch <- c }()
				return nil, &net.OpError{Op: "accept", Net: "tcp", Err: tempAcceptErr{}}
			}
		}
		return c, nil
	case <-l.closed:
		return nil, net.ErrClosed
	}
}

func (l *memListener) Close() error {
	l.once.Do(func() { close(l.closed) })
	return nil
}

func (l *memListener) Addr() net.Addr { return &net.TCPAddr{IP: net.IPv4(127, 0, 0, 1), Port: 38008} }

func (l *memListener) Dial(c *memConn) { l.ch <- c }
