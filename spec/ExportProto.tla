---------------------------- MODULE ExportProto ----------------------------
(* Writes the wire tables of Proto.tla to proto.json for the harness.      *)
EXTENDS Proto, Json, TLC
VARIABLE x
ASSUME JsonSerialize("proto.json", ProtoTable)
Init == x = 0
Next == UNCHANGED x
=============================================================================
