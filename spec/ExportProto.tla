---------------------------- MODULE ExportProto ----------------------------
(* Writes the wire tables of Proto.tla to proto.json for the harness.      *)
EXTENDS Proto, IsoFormat, Json, TLC
VARIABLE x
ASSUME JsonSerialize("proto.json", ProtoTable)
ASSUME JsonSerialize("iso.json", IsoTable)
Init == x = 0
Next == UNCHANGED x
=============================================================================
