------------------------------ MODULE ImageKind ------------------------------
(***************************************************************************)
(* Which transformation a file opened through the server's file system gets  *)
(* (pkg/fs.FS.OpenFile): none, on-the-fly decryption with a redump key found *)
(* beside the image or in the parallel REDKEY directory, or the 3k3y         *)
(* treatment recognised by the watermark at 0xF70.                           *)
(*                                                                           *)
(* l - facts about the layout:                                               *)
(*   mode        "read" | "write"                                            *)
(*   isIso       the extension is .iso in any case                           *)
(*   inPs3iso    some directory on the path is PS3ISO in any case            *)
(*   adjacent    key file <base>.dkey beside the image: none|valid|malformed *)
(*   redkey      key file in the parallel REDKEY directory: same             *)
(*   watermark   none | enc | dec  (3k3y watermark at 0xF70)                 *)
(*   longEnough  the file reaches 0x1070 (the whole 3k3y area is present)    *)
(*   tableValid  the region table in sector 0 is acceptable                  *)
(*                                                                           *)
(* Result: set of allowed outcomes [opens, decrypting, masked, key] with key *)
(* in {"A" adjacent, "B" REDKEY, "E" embedded}; Unspecified where the        *)
(* properties are silent (malformed key file).                               *)
(***************************************************************************)
EXTENDS Integers

Out(opens, decrypting, masked, key) == [opens |-> opens, decrypting |-> decrypting, masked |-> masked, key |-> key, any |-> FALSE]
Unspecified == { [opens |-> TRUE, decrypting |-> FALSE, masked |-> FALSE, key |-> "", any |-> TRUE] }
Raw == { Out(TRUE, FALSE, FALSE, "") }
Fails == { Out(FALSE, FALSE, FALSE, "") }

Decrypt(l, key, masked) == IF l.tableValid THEN { Out(TRUE, TRUE, masked, key) } ELSE Fails

Decide(l) ==
  IF l.mode = "write" THEN Raw                                   \* writers get the file itself
  ELSE LET redump == l.isIso /\ l.inPs3iso IN
       IF redump /\ l.adjacent = "valid" THEN Decrypt(l, "A", FALSE)          \* the adjacent key wins
       ELSE IF redump /\ l.adjacent = "malformed" THEN Unspecified
       ELSE IF redump /\ l.redkey = "valid" THEN Decrypt(l, "B", FALSE)
       ELSE IF redump /\ l.redkey = "malformed" THEN Unspecified
       ELSE IF l.longEnough /\ l.watermark = "enc" THEN Decrypt(l, "E", TRUE)  \* 3k3y: embedded key + masking
       ELSE IF l.longEnough /\ l.watermark = "dec" THEN { Out(TRUE, FALSE, TRUE, "") }
       ELSE Raw
=============================================================================
