---------------------------- MODULE Ps3Handlers ----------------------------
(***************************************************************************)
(* Sequential meaning of every ps3netsrv request: one pure operator per    *)
(* opcode, named after the handler it models (internal/handler/handler.go  *)
(* + pkg/server/server.go), over an abstract tree and the per-connection   *)
(* state {open directory, open read file, CD sector size, open write file}.*)
(*                                                                         *)
(* Each operator returns the SET of allowed outcomes                       *)
(*      [cs |-> connection state after, fs |-> tree after,                 *)
(*       resp |-> response on the wire, close |-> server ends connection]  *)
(* - a singleton wherever the properties fix the behaviour, several        *)
(* elements where they leave it open (spec/DONTCARE.md).                   *)
(***************************************************************************)
EXTENDS Integers, Sequences, FiniteSets, TLC, Pos, PathRes, Proto

NoPath == <<"#nopath">>

(***************************************************************************)
(* Abstract tree: a set of nodes                                           *)
(*   [p |-> path (names below the root, << >> = root), kind |-> "dir" |    *)
(*    "file" | "link", size |-> Pos, cid |-> content id, vcid/vsize |->    *)
(*    content id and size of the view served on open (differs from cid for *)
(*    encrypted images), mtime, ctime |-> seconds, target |-> link target  *)
(*    (normalised path below the root)]                                    *)
(***************************************************************************)
Exists(fsys, p) == \E n \in fsys : n.p = p
Node(fsys, p) == CHOOSE n \in fsys : n.p = p
Children(fsys, p) == { n \in fsys : Len(n.p) = Len(p) + 1 /\ SubSeq(n.p, 1, Len(p)) = p }
Beneath(fsys, p) == { n \in fsys : Len(n.p) > Len(p) /\ SubSeq(n.p, 1, Len(p)) = p }

RECURSIVE ResolveFrom(_, _, _, _)
ResolveFrom(fsys, cur, rest, fuel) ==
  IF rest = << >> THEN cur
  ELSE LET q == Append(cur, Head(rest)) IN
       IF ~Exists(fsys, q) THEN NoPath
       ELSE LET n == Node(fsys, q) IN
            IF n.kind = "link"
            THEN IF fuel = 0 THEN NoPath
                 ELSE ResolveFrom(fsys, << >>, n.target \o Tail(rest), fuel - 1)
            ELSE IF Tail(rest) # << >> /\ n.kind # "dir" THEN NoPath
            ELSE ResolveFrom(fsys, q, Tail(rest), fuel)

(* stat(2): follow symlinks everywhere *)
Resolve(fsys, p) == ResolveFrom(fsys, << >>, p, 4)
(* lstat(2)-like: resolve the parent, keep the last element unresolved *)
ResolveParent(fsys, p) == IF p = << >> THEN NoPath ELSE Resolve(fsys, Parent(p))
LResolve(fsys, p) ==
  IF p = << >> THEN << >>
  ELSE LET d == ResolveParent(fsys, p) IN
       IF d = NoPath THEN NoPath
       ELSE IF Exists(fsys, Append(d, Base(p))) THEN Append(d, Base(p)) ELSE NoPath

(* where open(O_CREAT) on p creates the file: p itself below its resolved   *)
(* parent, or - if that name is a dangling symlink - the link's target      *)
RECURSIVE FinalTarget(_, _, _)
FinalTarget(fsys, p, fuel) ==
  IF p = << >> THEN NoPath
  ELSE LET d == ResolveParent(fsys, p) IN
       IF d = NoPath \/ ~Exists(fsys, d) \/ Node(fsys, d).kind # "dir" THEN NoPath
       ELSE LET q == Append(d, Base(p)) IN
            IF ~Exists(fsys, q) THEN q
            ELSE IF Node(fsys, q).kind = "link"
                 THEN IF fuel = 0 THEN NoPath ELSE FinalTarget(fsys, Node(fsys, q).target, fuel - 1)
                 ELSE q

IsDirAt(fsys, p) == p # NoPath /\ Exists(fsys, p) /\ Node(fsys, p).kind = "dir"
IsFileAt(fsys, p) == p # NoPath /\ Exists(fsys, p) /\ Node(fsys, p).kind = "file"

(* What a listing shows for child c of an opened directory: the name of the *)
(* child, everything else from the node it resolves to.                     *)
EntryOf(fsys, c) ==
  LET t == Node(fsys, Resolve(fsys, c.p)) IN
  [name |-> Base(c.p), isdir |-> t.kind = "dir",
   size |-> IF t.kind = "dir" THEN PZero ELSE t.size, mtime |-> t.mtime, ctime |-> t.ctime]
Entries(fsys, d) == { EntryOf(fsys, c) : c \in { c \in Children(fsys, d) : Resolve(fsys, c.p) # NoPath } }

RECURSIVE SumSizes(_)
SumSizes(S) == IF S = {} THEN PZero
               ELSE LET x == CHOOSE x \in S : TRUE IN PAdd(x.size, SumSizes(S \ {x}))

(* Regular files reachable beneath directory d, following symlinks (a link  *)
(* to a directory is descended into) - except into a directory the descent  *)
(* is already inside of (a link to an ancestor): that one contributes       *)
(* nothing, so the sum is finite.  anc = the directories entered so far.    *)
RECURSIVE FilesBeneath(_, _, _)
FilesBeneath(fsys, d, anc) ==
  LET kids == { c \in Children(fsys, d) : Resolve(fsys, c.p) # NoPath }
      res(c) == Resolve(fsys, c.p)
  IN { [via |-> c.p, size |-> Node(fsys, res(c)).size] : c \in { c \in kids : Node(fsys, res(c)).kind = "file" } }
     \cup UNION { { [via |-> c.p \o f.via, size |-> f.size] : f \in FilesBeneath(fsys, res(c), anc \cup {d}) }
                  : c \in { c \in kids : Node(fsys, res(c)).kind = "dir" /\ res(c) \notin anc \cup {d} } }
DirSize(fsys, d) == SumSizes(FilesBeneath(fsys, d, {}))

(***************************************************************************)
(* Connection state                                                        *)
(***************************************************************************)
NoDir == [open |-> FALSE, path |-> << >>, pending |-> {}, undef |-> FALSE, viso |-> FALSE]
NoFile == [open |-> FALSE, byPath |-> FALSE, path |-> << >>, cid |-> "", size |-> PZero, undef |-> FALSE, viso |-> FALSE]
(* The open read file: a generated image (content and size fixed at open)   *)
(* or a node of the tree (byPath): reads see the node as it is now, so a    *)
(* later create/truncate/write on the same path is visible; a node that has *)
(* been removed meanwhile makes reads unspecified.                          *)
RoView(cs, fsys) ==
  IF ~cs.ro.byPath THEN cs.ro
  ELSE IF ~Exists(fsys, cs.ro.path) \/ Node(fsys, cs.ro.path).kind # "file" THEN [cs.ro EXCEPT !.undef = TRUE]
  ELSE [cs.ro EXCEPT !.cid = Node(fsys, cs.ro.path).vcid, !.size = Node(fsys, cs.ro.path).vsize]
NoWo == [open |-> FALSE, path |-> << >>, off |-> PZero]
InitCs == [dir |-> NoDir, ro |-> NoFile, sect |-> 0, wo |-> NoWo]

Outcome(cs, fsys, resp, close) == [cs |-> cs, fs |-> fsys, resp |-> resp, close |-> close, wild |-> {}]
(* wild: paths of files whose content after the step is unspecified          *)
OutcomeWild(cs, fsys, resp, close, wild) == [cs |-> cs, fs |-> fsys, resp |-> resp, close |-> close, wild |-> wild]

Res4(v) == [k |-> "Res4", v |-> v]
RNone == [k |-> "None"]
EndMarker(v2) == IF v2
  THEN [k |-> "EntryV2", size |-> PNeg1, mtime |-> 0, ctime |-> 0, atime |-> 0, namelen |-> 0, isdir |-> 0, name |-> "", wild |-> {}]
  ELSE [k |-> "Entry", size |-> PNeg1, namelen |-> 0, isdir |-> 0, name |-> "", wild |-> {}]
AnyResp == [k |-> "Any"]     \* any single well-formed response of the opcode's layout (don't-care content)

B(b) == IF b THEN 1 ELSE 0

(***************************************************************************)
(* OPEN_DIR (HandleOpenDir)                                                 *)
(*  open fails        -> -1, previously open directory kept                 *)
(*  opens, not a dir  -> -1, previously open directory kept (the object is  *)
(*                       closed again: only directories can be listed)      *)
(*  opens a directory -> 0, listing cursor at the start                     *)
(* A virtual-image path opens (it is a file-like object), so it is case 2.  *)
(***************************************************************************)
HandleOpenDir(cs, fsys, req) ==
  LET p == Norm(req.path)
      vk == VirtualKind(p)
      t == Resolve(fsys, VirtualTarget(p))
  IN \* only a directory becomes the open directory: a generated image (virtual prefix), a file, a missing path are
     \* refused and leave the directory that was open before as it is
     IF vk # "generic" THEN { Outcome(cs, fsys, Res4(-1), FALSE) }
     ELSE IF t = NoPath THEN { Outcome(cs, fsys, Res4(-1), FALSE) }
     ELSE IF ~IsDirAt(fsys, t) THEN { Outcome(cs, fsys, Res4(-1), FALSE) }
          ELSE { Outcome([cs EXCEPT !.dir = [open |-> TRUE, path |-> t,
                                             pending |-> { e.name : e \in Entries(fsys, t) }, undef |-> FALSE, viso |-> FALSE]],
                         fsys, Res4(0), FALSE) }

(***************************************************************************)
(* READ_DIR_ENTRY / READ_DIR_ENTRY_V2 (HandleReadDirEntry)                  *)
(*  one not-yet-reported entry of the open directory (which one is the      *)
(*  filesystem's choice), or the end marker - which also closes the dir.    *)
(***************************************************************************)
EntryResp(e, v2) == IF v2
  THEN [k |-> "EntryV2", size |-> e.size, mtime |-> e.mtime, ctime |-> e.ctime, atime |-> 0,
        namelen |-> -1, isdir |-> B(e.isdir), name |-> e.name, wild |-> {"atime", "namelen"}]
  ELSE [k |-> "Entry", size |-> e.size, namelen |-> -1, isdir |-> B(e.isdir), name |-> e.name, wild |-> {"namelen"}]

HandleReadDirEntry(cs, fsys, v2) ==
  IF ~cs.dir.open THEN { Outcome(cs, fsys, EndMarker(v2), FALSE) }
  ELSE IF cs.dir.undef
       THEN { Outcome(cs, fsys, AnyResp, FALSE), Outcome([cs EXCEPT !.dir = NoDir], fsys, AnyResp, FALSE) }
  ELSE IF cs.dir.pending = {} THEN { Outcome([cs EXCEPT !.dir = NoDir], fsys, EndMarker(v2), FALSE) }
  ELSE { Outcome([cs EXCEPT !.dir.pending = @ \ {e.name}], fsys, EntryResp(e, v2), FALSE)
         : e \in { e \in Entries(fsys, cs.dir.path) : e.name \in cs.dir.pending } }

(***************************************************************************)
(* READ_DIR (HandleReadDir): all not-yet-reported entries at once; the      *)
(* directory stays open but exhausted (deviation from the C original,       *)
(* which closes it: ReadDirKeepsHandle - not observable on the wire).       *)
(***************************************************************************)
HandleReadDir(cs, fsys) ==
  IF ~cs.dir.open THEN { Outcome(cs, fsys, [k |-> "ReadDir", ents |-> {}], FALSE) }
  ELSE IF cs.dir.undef THEN { Outcome(cs, fsys, AnyResp, FALSE) }
  ELSE { Outcome([cs EXCEPT !.dir.pending = {}], fsys,
                 [k |-> "ReadDir",
                  ents |-> { [name |-> e.name, isdir |-> B(e.isdir), size |-> e.size, mtime |-> e.mtime]
                             : e \in { e \in Entries(fsys, cs.dir.path) : e.name \in cs.dir.pending } }],
                 FALSE) }

(***************************************************************************)
(* STAT_FILE (HandleStatFile): no virtual-image translation.                *)
(***************************************************************************)
StatFail == [k |-> "Stat", size |-> PNeg1, mtime |-> 0, ctime |-> 0, atime |-> 0, isdir |-> 0, wild |-> {}]
HandleStat(cs, fsys, req) ==
  LET t == Resolve(fsys, Norm(req.path)) IN
  IF t = NoPath THEN { Outcome(cs, fsys, StatFail, FALSE) }
  ELSE LET n == Node(fsys, t) IN
       { Outcome(cs, fsys,
                 [k |-> "Stat", size |-> IF n.kind = "dir" THEN PZero ELSE n.size, mtime |-> n.mtime,
                  ctime |-> n.ctime, atime |-> 0, isdir |-> B(n.kind = "dir"), wild |-> {"atime"}], FALSE) }

(***************************************************************************)
(* OPEN_FILE (handleOpenFile + HandleOpenFile / HandleCloseFile)            *)
(*  last element CLOSEFILE -> close the read file, all-zero reply           *)
(*  otherwise the previously open read file is closed first, whatever       *)
(*  happens next.  A generated image announces the size of the image (its   *)
(*  modification time is the moment of creation: not predicted).            *)
(*  Opening a directory succeeds at the filesystem level; the properties    *)
(*  say nothing about it (undef object).                                    *)
(* CD sector size (determineSectorSize): 2352 unless the object is between  *)
(*  2 MiB and 848 MiB and carries a signature for one of the seven sizes;   *)
(*  the node field sig is that size (0 = no signature).                     *)
(***************************************************************************)
OpenFail == [k |-> "Open", size |-> PNeg1, mtime |-> 0, wild |-> {}]
(* A node's marks say where a signature was planted: <<off, tag>> with tag  *)
(* "CD001" (the 6 bytes 01 'CD001' opening a volume descriptor) or "PSX"    *)
(* ("PLAYSTATION " 8 bytes further on).  The descriptor of a raw CD image   *)
(* with sector size ss sits in sector 16, after the 24-byte sector prefix.  *)
SigPos(ss) == PAdd(P(CDUserOffset), PMulInt(P(ss), 16))
HasMark(n, off, tag) == \E i \in DOMAIN n.marks : n.marks[i].off = off /\ n.marks[i].tag = tag
RECURSIVE FirstSig(_, _)
FirstSig(n, i) ==
  IF i > Len(CDSectorSizes) THEN 0
  ELSE LET ss == CDSectorSizes[i] IN
       IF HasMark(n, SigPos(ss), "CD001") \/ HasMark(n, PAdd(SigPos(ss), P(8)), "PSX") THEN ss
       ELSE FirstSig(n, i + 1)
SigOf(n) == FirstSig(n, 1)
SectorFor(size, sig) ==
  IF PLe(P(CDDetectMin), size) /\ PLe(size, P(CDDetectMax)) /\ sig > 0 THEN sig ELSE DefaultCDSector

HandleOpenFile(cs, fsys, req, views) ==
  LET p == Norm(req.path)
      closed == [cs EXCEPT !.ro = NoFile, !.sect = 0]
  IN IF p # << >> /\ Base(p) = "CLOSEFILE"
     THEN { Outcome(closed, fsys, [k |-> "Open", size |-> PZero, mtime |-> 0, wild |-> {}], FALSE) }
     ELSE LET vk == VirtualKind(p)
              t == Resolve(fsys, VirtualTarget(p))
              key == <<vk, t>>
          IN IF vk # "generic"
             THEN IF IsDirAt(fsys, t) /\ key \in DOMAIN views
                  THEN LET v == views[key] IN
                       { Outcome([closed EXCEPT !.ro = [open |-> TRUE, byPath |-> FALSE, path |-> t, cid |-> v.cid, size |-> v.size, undef |-> FALSE, viso |-> TRUE],
                                                !.sect = SectorFor(v.size, 0)],
                                 fsys, [k |-> "Open", size |-> v.size, mtime |-> 0, wild |-> {"mtime"}], FALSE) }
                  ELSE { Outcome(closed, fsys, OpenFail, FALSE) }
             ELSE IF t = NoPath THEN { Outcome(closed, fsys, OpenFail, FALSE) }
             ELSE LET n == Node(fsys, t) IN
                  IF n.kind = "file" /\ n.any     \* hostile content (C04): open may fail or yield anything readable; never a crash
                  THEN { Outcome(closed, fsys, OpenFail, FALSE),
                         Outcome([closed EXCEPT !.ro = [open |-> TRUE, byPath |-> FALSE, path |-> t, cid |-> "", size |-> PZero, undef |-> TRUE, viso |-> FALSE],
                                                !.sect = DefaultCDSector], fsys, AnyResp, FALSE) }
                  ELSE IF n.kind = "dir"
                  THEN { Outcome([closed EXCEPT !.ro = [open |-> TRUE, byPath |-> FALSE, path |-> t, cid |-> "", size |-> PZero, undef |-> TRUE, viso |-> FALSE],
                                                !.sect = DefaultCDSector], fsys, AnyResp, FALSE) }
                  ELSE { Outcome([closed EXCEPT !.ro = [open |-> TRUE, byPath |-> TRUE, path |-> t, cid |-> n.vcid, size |-> n.vsize, undef |-> FALSE, viso |-> FALSE],
                                                !.sect = SectorFor(n.vsize, SigOf(n))],
                                 fsys, [k |-> "Open", size |-> n.vsize, mtime |-> n.mtime, wild |-> {}], FALSE) }

(***************************************************************************)
(* Data: a payload is described as runs [src, off, len] of named content    *)
(* sources.  Adjacent runs that continue each other are one run.            *)
(***************************************************************************)
Run(src, off, len) == [src |-> src, off |-> off, len |-> len]
RECURSIVE MergeRuns(_)
MergeRuns(rs) ==
  IF Len(rs) <= 1 THEN rs
  ELSE LET a == rs[1]
           b == rs[2]
       IN IF a.len = 0 THEN MergeRuns(Tail(rs))
          ELSE IF a.src = b.src /\ PAdd(a.off, P(a.len)) = b.off
               THEN MergeRuns(<<Run(a.src, a.off, a.len + b.len)>> \o Tail(Tail(rs)))
               ELSE <<a>> \o MergeRuns(Tail(rs))
RECURSIVE RunsLen(_)
RunsLen(rs) == IF rs = << >> THEN 0 ELSE Head(rs).len + RunsLen(Tail(rs))
RECURSIVE TruncRuns(_, _)
TruncRuns(rs, n) ==
  IF n <= 0 \/ rs = << >> THEN << >>
  ELSE IF Head(rs).len <= n THEN <<Head(rs)>> \o TruncRuns(Tail(rs), n - Head(rs).len)
       ELSE <<Run(Head(rs).src, Head(rs).off, n)>>
NonEmpty(rs) == SelectSeq(rs, LAMBDA r : r.len > 0)

(* bytes of the object available from off, capped at lim (both Pos); result an int (lim < 2^31 by assumption) *)
Avail(size, off, lim) ==
  IF PIsNeg(off) \/ PLe(size, off) THEN 0 ELSE PInt(PMin(PSub(size, off), lim))

(***************************************************************************)
(* READ_FILE (HandleReadFile): announce n = min(limit, size - off), then n  *)
(* bytes.  No file open: the connection is ended without a reply (or a      *)
(* non-positive count is announced).  Every 64-bit offset has an answer     *)
(* (past the end: zero bytes); limits >= 2^31 (hugeArgs) are unspecified,   *)
(* but still get at most one well-formed reply.                             *)
(***************************************************************************)
HandleReadFile(cs, fsys, req) ==
  LET ro == RoView(cs, fsys) IN
  IF ~cs.ro.open
  THEN { Outcome(cs, fsys, RNone, TRUE), Outcome(cs, fsys, [k |-> "ReadNonPositive"], FALSE) }
  ELSE IF ro.undef \/ req.hugeArgs
       THEN { Outcome(cs, fsys, AnyResp, FALSE), Outcome(cs, fsys, RNone, TRUE) }
  ELSE LET n == Avail(ro.size, req.off, req.limit) IN
       { Outcome(cs, fsys, [k |-> "Read", n |-> n, runs |-> NonEmpty(<<Run(ro.cid, req.off, n)>>)], FALSE) }

(***************************************************************************)
(* READ_FILE_CRITICAL (HandleReadFileCritical): exactly limit raw bytes;    *)
(* if they cannot all be delivered, a (possibly empty) correct prefix and   *)
(* the connection is ended.                                                 *)
(***************************************************************************)
RawFull(runs) == [k |-> "Raw", runs |-> MergeRuns(NonEmpty(runs))]
RawPrefix(runs) == [k |-> "RawPrefix", runs |-> MergeRuns(NonEmpty(runs))]

HandleReadCritical(cs, fsys, req) ==
  LET ro == RoView(cs, fsys) IN
  IF ~cs.ro.open THEN { Outcome(cs, fsys, RNone, TRUE) }
  ELSE IF ro.undef \/ req.hugeArgs
       THEN { Outcome(cs, fsys, AnyResp, FALSE), Outcome(cs, fsys, AnyResp, TRUE), Outcome(cs, fsys, RNone, TRUE),
              Outcome(cs, fsys, RNone, FALSE) }
  ELSE LET n == Avail(ro.size, req.off, req.limit)
           want == PInt(req.limit)
       IN IF n = want
          THEN { Outcome(cs, fsys, RawFull(<<Run(ro.cid, req.off, n)>>), FALSE) }
          ELSE { Outcome(cs, fsys, RawPrefix(<<Run(ro.cid, req.off, n)>>), TRUE) }

(***************************************************************************)
(* READ_CD_2048 (HandleReadCD2048Critical): for k < count the 2048 user     *)
(* bytes of raw sector start + k, i.e. [24 + (start+k)*sect, +2048).        *)
(***************************************************************************)
RECURSIVE CDRuns(_, _, _, _, _)
CDRuns(cid, size, sect, sector, left) ==
  IF left = 0 THEN << >>
  ELSE LET off == PAdd(P(CDUserOffset), PMulSmall(sect, sector))     \* sector < 2^29 (beyond that: hugeArgs)
           n == Avail(size, off, P(CDUserBytes))
       IN IF n < CDUserBytes THEN <<Run(cid, off, n)>>     \* short: the stream stops here
          ELSE <<Run(cid, off, n)>> \o CDRuns(cid, size, sect, sector + 1, left - 1)

HandleReadCD(cs, fsys, req) ==
  LET ro == RoView(cs, fsys) IN
  IF ~cs.ro.open \/ cs.sect <= 0 THEN { Outcome(cs, fsys, RNone, TRUE) }
  ELSE IF ro.undef \/ ro.viso \/ req.hugeArgs     \* sector reads of a generated image: not a CD image, unspecified
       THEN { Outcome(cs, fsys, AnyResp, FALSE), Outcome(cs, fsys, AnyResp, TRUE), Outcome(cs, fsys, RNone, TRUE),
              Outcome(cs, fsys, RNone, FALSE) }
  ELSE LET runs == CDRuns(ro.cid, ro.size, cs.sect, req.start, req.count)
           full == RunsLen(runs) = req.count * CDUserBytes
       IN \* one run per sector (the harness describes sector reads block by block, never merged)
          IF full THEN { Outcome(cs, fsys, [k |-> "Raw", runs |-> NonEmpty(runs)], FALSE) }
          ELSE { Outcome(cs, fsys, [k |-> "RawPrefix", runs |-> NonEmpty(runs)], TRUE) }

(***************************************************************************)
(* Mutating requests.  aw = writing enabled.                               *)
(***************************************************************************)
Touch(fsys, p) == fsys   \* time stamps of changed nodes are re-read from the observed tree, not predicted

NewFile(p) == [p |-> p, kind |-> "file", size |-> PZero, cid |-> "", vcid |-> "", vsize |-> PZero,
               mtime |-> 0, ctime |-> 0, target |-> << >>, marks |-> << >>, unk |-> FALSE, any |-> FALSE]
NewDir(p) == [p |-> p, kind |-> "dir", size |-> PZero, cid |-> "", vcid |-> "", vsize |-> PZero,
              mtime |-> 0, ctime |-> 0, target |-> << >>, marks |-> << >>, unk |-> FALSE, any |-> FALSE]

(* names no object can have (NUL inside, longer than 255 bytes): the harness *)
(* lists those segments of the request's path in req.bad                    *)
BadName(req, name) == \E i \in DOMAIN req.bad : req.bad[i] = name

(* a change inside a directory that some listing cursor is walking makes    *)
(* the rest of that listing unspecified                                     *)
Staled(cs, d) == IF cs.dir.open /\ cs.dir.path = d THEN [cs EXCEPT !.dir.undef = TRUE] ELSE cs

(***************************************************************************)
(* CREATE_FILE (HandleCreateFile): close the write file; a directory path   *)
(* is a no-op "close" (success, or failure - unspecified); otherwise        *)
(* create-or-truncate.  Virtual-image paths are refused.                    *)
(***************************************************************************)
HandleCreate(cs, fsys, req, aw) ==
  LET p == Norm(req.path)
      cs0 == [cs EXCEPT !.wo = NoWo]
  IN IF ~aw THEN { Outcome(cs, fsys, Res4(-1), FALSE) }
     ELSE IF VirtualKind(p) # "generic"
          THEN \* refused - unless a literal directory of that very name exists (then the no-op "close" of a directory path)
               { Outcome(cs0, fsys, Res4(-1), FALSE) }
               \cup (IF IsDirAt(fsys, Resolve(fsys, p)) THEN { Outcome(cs0, fsys, Res4(0), FALSE) } ELSE {})
     ELSE LET t == Resolve(fsys, p) IN
          IF t # NoPath
          THEN IF Node(fsys, t).kind = "dir"
               THEN { Outcome(cs0, fsys, Res4(0), FALSE), Outcome(cs0, fsys, Res4(-1), FALSE) }
               ELSE LET n == Node(fsys, t)
                        n2 == [n EXCEPT !.size = PZero, !.cid = "", !.vcid = "", !.vsize = PZero, !.marks = << >>, !.unk = FALSE]
                    IN { Outcome([cs0 EXCEPT !.wo = [open |-> TRUE, path |-> t, off |-> PZero]], (fsys \ {n}) \cup {n2}, Res4(0), FALSE) }
          ELSE LET q == FinalTarget(fsys, p, 4) IN      \* O_CREAT follows a dangling link to its target
               IF q = NoPath \/ BadName(req, Base(q))
               THEN { Outcome(cs0, fsys, Res4(-1), FALSE) }
               ELSE { Outcome(Staled([cs0 EXCEPT !.wo = [open |-> TRUE, path |-> q, off |-> PZero]], Parent(q)),
                              fsys \cup {NewFile(q)}, Res4(0), FALSE) }

(***************************************************************************)
(* WRITE_FILE (HandleWriteFile): the payload is always consumed; appended   *)
(* to the open write file, reply = number of bytes written.                 *)
(***************************************************************************)
CatCid(a, b) == IF a = "" THEN b ELSE a \o "+" \o b
HandleWrite(cs, fsys, req, aw) ==
  IF ~aw \/ ~cs.wo.open THEN { Outcome(cs, fsys, Res4(-1), FALSE) }
  ELSE LET cs2 == [cs EXCEPT !.wo.off = PAdd(@, P(req.plen))] IN
       IF ~Exists(fsys, cs.wo.path)     \* file removed while open: data goes to the unlinked inode
       THEN { Outcome(cs2, fsys, Res4(req.plen), FALSE) }
       ELSE LET n == Node(fsys, cs.wo.path) IN
            IF n.kind # "file" \/ n.size # cs.wo.off \/ n.unk
            THEN \* somebody else re-created or wrote the same file meanwhile (or the name now denotes another
                 \* object): two writers on one file - the resulting content is unspecified
                 { OutcomeWild(cs2, fsys, Res4(req.plen), FALSE, {cs.wo.path}) }
            ELSE LET c2 == IF req.plen = 0 THEN n.cid ELSE CatCid(n.cid, req.chunk)
                     sz == PAdd(n.size, P(req.plen))
                     n2 == [n EXCEPT !.size = sz, !.cid = c2, !.vcid = c2, !.vsize = sz, !.marks = << >>]
                 IN { Outcome(cs2, (fsys \ {n}) \cup {n2}, Res4(req.plen), FALSE) }

(***************************************************************************)
(* DELETE_FILE / RMDIR (both are Fs.Remove) and MKDIR.                      *)
(* Delete of a directory and rmdir of a file: unspecified (either refused   *)
(* or carried out, reported truthfully).  Removing the root: unspecified.   *)
(***************************************************************************)
(* (the listing of an open directory names its entries through the path it was opened by: when a symbolic link is     *)
(*  removed while a directory is open - it may be the link the directory was reached through - what the listing goes   *)
(*  on to show is not specified)                                                                                        *)
RemoveNode(cs, fsys, t) ==
  LET n == Node(fsys, t)
      cs1 == Staled(cs, Parent(t))
  IN Outcome(IF n.kind = "link" /\ cs1.dir.open THEN [cs1 EXCEPT !.dir.undef = TRUE] ELSE cs1, fsys \ {n}, Res4(0), FALSE)

HandleRemove(cs, fsys, req, aw, wantDir) ==
  LET p == Norm(req.path) IN
  IF ~aw THEN { Outcome(cs, fsys, Res4(-1), FALSE) }
  ELSE LET t == LResolve(fsys, p) IN      \* unlink does not follow a final symlink
       IF t = NoPath \/ t = << >> THEN { Outcome(cs, fsys, Res4(-1), FALSE) }
       ELSE LET n == Node(fsys, t)
                isd == n.kind = "dir"
                empty == Children(fsys, t) = {}
            IN \* exactly the named effect: DELETE_FILE removes what is not a directory (a link itself, not its target),
               \* RMDIR removes an empty directory; anything else is refused
               IF isd /\ ~empty THEN { Outcome(cs, fsys, Res4(-1), FALSE) }
               ELSE IF isd = wantDir THEN { RemoveNode(cs, fsys, t) }
               ELSE { Outcome(cs, fsys, Res4(-1), FALSE) }

HandleMkdir(cs, fsys, req, aw) ==
  LET p == Norm(req.path) IN
  IF ~aw THEN { Outcome(cs, fsys, Res4(-1), FALSE) }
  ELSE LET d == ResolveParent(fsys, p) IN
       IF p = << >> \/ ~IsDirAt(fsys, d) \/ Exists(fsys, Append(d, Base(p))) \/ BadName(req, Base(p))
       THEN { Outcome(cs, fsys, Res4(-1), FALSE) }
       ELSE { Outcome(Staled(cs, d), fsys \cup {NewDir(Append(d, Base(p)))}, Res4(0), FALSE) }

(***************************************************************************)
(* GET_DIR_SIZE (HandleGetDirSize): total size of the regular files beneath *)
(* the requested directory.  Not a directory / missing: unspecified.        *)
(***************************************************************************)
HandleDirSize(cs, fsys, req) ==
  LET t == Resolve(fsys, Norm(req.path)) IN
  IF IsDirAt(fsys, t) THEN { Outcome(cs, fsys, [k |-> "Res8", size |-> DirSize(fsys, t), wild |-> {}], FALSE) }
  ELSE { Outcome(cs, fsys, AnyResp, FALSE) }

(***************************************************************************)
(* A request that stops short (the client hangs up in the middle): the      *)
(* connection ends without a byte - also when it is the payload of a        *)
(* WRITE_FILE that is cut short (what did arrive may have been stored).     *)
(***************************************************************************)
HandleTruncated(cs, fsys, req, aw) ==
  IF req.of = "WRITE_FILE" /\ req.cut >= CommandLen /\ aw /\ cs.wo.open
  \* the part of the payload that did arrive may have been stored before the connection ends - but nothing is answered
  THEN { OutcomeWild(cs, fsys, RNone, TRUE, {cs.wo.path}) }
  ELSE { Outcome(cs, fsys, RNone, TRUE) }

(***************************************************************************)
(* Dispatch (handleCommand).  Unknown opcodes and truncated requests end    *)
(* the connection without a byte.                                           *)
(***************************************************************************)
Handle1(cs, fsys, req, aw, views) ==
  CASE req.op = "OPEN_DIR"           -> HandleOpenDir(cs, fsys, req)
    [] req.op = "READ_DIR_ENTRY"     -> HandleReadDirEntry(cs, fsys, FALSE)
    [] req.op = "READ_DIR_ENTRY_V2"  -> HandleReadDirEntry(cs, fsys, TRUE)
    [] req.op = "READ_DIR"           -> HandleReadDir(cs, fsys)
    [] req.op = "STAT_FILE"          -> HandleStat(cs, fsys, req)
    [] req.op = "OPEN_FILE"          -> HandleOpenFile(cs, fsys, req, views)
    [] req.op = "READ_FILE"          -> HandleReadFile(cs, fsys, req)
    [] req.op = "READ_FILE_CRITICAL" -> HandleReadCritical(cs, fsys, req)
    [] req.op = "READ_CD_2048"       -> HandleReadCD(cs, fsys, req)
    [] req.op = "CREATE_FILE"        -> HandleCreate(cs, fsys, req, aw)
    [] req.op = "WRITE_FILE"         -> HandleWrite(cs, fsys, req, aw)
    [] req.op = "DELETE_FILE"        -> HandleRemove(cs, fsys, req, aw, FALSE)
    [] req.op = "RMDIR"              -> HandleRemove(cs, fsys, req, aw, TRUE)
    [] req.op = "MKDIR"              -> HandleMkdir(cs, fsys, req, aw)
    [] req.op = "GET_DIR_SIZE"       -> HandleDirSize(cs, fsys, req)
    [] req.op = "TRUNCATED"          -> HandleTruncated(cs, fsys, req, aw)
    \* the client reset the connection in the middle of the reply to a read: what it received is not judged, the
    \* connection's own state is what it was (reads do not change it); normally the server notices and hangs up
    [] req.op = "ABORTED"            -> { Outcome(cs, fsys, [k |-> "Unjudged"], c) : c \in BOOLEAN }
    [] OTHER                         -> { Outcome(cs, fsys, RNone, TRUE) }   \* BAD_OPCODE

(* C01: a path that lexically rises above the root is clamped, or answered   *)
(* exactly like a path that does not exist.                                  *)
Handle(cs, fsys, req, aw, views) ==
  IF req.op \in PathOps /\ Escapes(req.path)
  THEN Handle1(cs, fsys, req, aw, views) \cup Handle1(cs, fsys, [req EXCEPT !.path = NoSuchPath], aw, views)
  ELSE Handle1(cs, fsys, req, aw, views)

(***************************************************************************)
(* C13: a request during which the filesystem failed (an operation returned *)
(* an error, or a read/write was cut short).  The client may get the fully  *)
(* correct outcome, the protocol's failure reply, or a correct prefix and   *)
(* a closed connection - nothing else.  Where the failure leaves the        *)
(* connection's private state is not specified: every plausible state is    *)
(* offered (the later observations pick the one that explains them).        *)
(***************************************************************************)
DirStates(cs, ok) ==
  { cs.dir, NoDir, [cs.dir EXCEPT !.undef = TRUE] } \cup { o.cs.dir : o \in ok } \cup { [o.cs.dir EXCEPT !.undef = TRUE] : o \in ok }
FaultOutcomes(cs, fsys, req, aw, views) ==
  LET ok == Handle1(cs, fsys, req, aw, views)
      closedAny == { Outcome(cs, fsys, RNone, TRUE) }
  IN CASE req.op = "OPEN_DIR" ->
            { Outcome([cs EXCEPT !.dir = d], fsys, Res4(-1), FALSE) : d \in DirStates(cs, ok) }
       [] req.op \in {"READ_DIR_ENTRY", "READ_DIR_ENTRY_V2"} ->
            \* entries that cannot be stat'ed are skipped by design; the rest of the listing is unspecified afterwards
            UNION { { Outcome([cs EXCEPT !.dir = d], fsys, o.resp, FALSE) : d \in {NoDir, [o.cs.dir EXCEPT !.undef = TRUE]} } : o \in ok }
            \cup { Outcome([cs EXCEPT !.dir = NoDir], fsys, EndMarker(req.op = "READ_DIR_ENTRY_V2"), FALSE) }
       [] req.op = "READ_DIR" ->
            UNION { { Outcome([cs EXCEPT !.dir = d], fsys, [k |-> "ReadDirSubset", ents |-> o.resp.ents], FALSE)
                      : d \in {NoDir, [o.cs.dir EXCEPT !.undef = TRUE]} } : o \in { o \in ok : o.resp.k = "ReadDir" } }
            \cup { Outcome(o.cs, fsys, AnyResp, FALSE) : o \in { o \in ok : o.resp.k # "ReadDir" } }
       [] req.op = "STAT_FILE" -> { Outcome(cs, fsys, StatFail, FALSE) }
       [] req.op = "OPEN_FILE" ->
            \* failure reply, and no file is open behind it (all or nothing)
            { Outcome([cs EXCEPT !.ro = NoFile, !.sect = 0], fsys, OpenFail, FALSE) }
            \* (a failed sector-size probe fails the open: serving sectors by the default size would be wrong bytes later)
       [] req.op = "READ_FILE" ->
            \* nothing and the connection ends - or, the source having ended early, an honestly announced shorter count
            \* followed by exactly that many right bytes (the length header keeps the stream in step)
            closedAny \cup UNION { { Outcome(cs, fsys, [k |-> "ReadPrefix", runs |-> o.resp.runs], c) : c \in BOOLEAN }
                                   : o \in { o \in ok : o.resp.k = "Read" } }
            \* - or the right count, a correct prefix of the bytes, and the connection ends (the data is streamed)
            \cup { Outcome(cs, fsys, [k |-> "ReadCut", runs |-> o.resp.runs], TRUE) : o \in { o \in ok : o.resp.k = "Read" } }
       [] req.op \in {"READ_FILE_CRITICAL", "READ_CD_2048"} ->
            { Outcome(cs, fsys, [k |-> "RawPrefix", runs |-> o.resp.runs], TRUE) : o \in { o \in ok : o.resp.k \in {"Raw", "RawPrefix"} } }
            \cup closedAny
       [] req.op = "CREATE_FILE" -> { Outcome([cs EXCEPT !.wo = NoWo], fsys, Res4(-1), FALSE) }
       [] req.op = "WRITE_FILE" ->
            \* a failed write may have stored a part of the payload
            { OutcomeWild(cs, fsys, Res4(-1), FALSE, IF cs.wo.open THEN {cs.wo.path} ELSE {}) }
       [] req.op \in {"DELETE_FILE", "MKDIR", "RMDIR"} -> { Outcome(cs, fsys, Res4(-1), FALSE) }
       [] req.op = "GET_DIR_SIZE" -> { Outcome(cs, fsys, AnyResp, FALSE) }   \* unreadable entries are skipped by design
       [] OTHER -> {}

HandleF(cs, fsys, req, aw, views, nfaults) ==
  IF nfaults = 0 THEN Handle(cs, fsys, req, aw, views)
  ELSE Handle(cs, fsys, req, aw, views) \cup FaultOutcomes(cs, fsys, req, aw, views)

(* handles the connection owns, by role *)
Owned(cs) == (IF cs.dir.open THEN {"dir"} ELSE {}) \cup (IF cs.ro.open THEN {"ro"} ELSE {}) \cup (IF cs.wo.open THEN {"wo"} ELSE {})
(* raw filesystem handles behind them: a generated image holds none itself  *)
(* but keeps the member file it read last open (one at most: a directory    *)
(* may have more files than the process can hold descriptors)               *)
RawHeldMin(cs) == Cardinality({ r \in Owned(cs) : ~((r = "dir" /\ cs.dir.viso) \/ (r = "ro" /\ cs.ro.viso)) })
RawHeldMax(cs, fsys) == RawHeldMin(cs) + (IF cs.ro.open /\ cs.ro.viso /\ \E n \in Beneath(fsys, cs.ro.path) : n.kind # "dir" THEN 1 ELSE 0)
=============================================================================
