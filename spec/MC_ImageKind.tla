---------------------------- MODULE MC_ImageKind ----------------------------
(* Full product of layout classes: sanity properties of Decide and the       *)
(* generator of layouts (with TLC's decision) for the conformance run.       *)
EXTENDS ImageKind, TLC, Json, FiniteSets

DirNames == {"PS3ISO", "ps3iso", "Ps3Iso", "GAMES"}
Exts == {".iso", ".ISO", ".Iso", ".bin", ""}
Nestings == {"direct", "nested", "outside"}      \* image directly in <dir>, two levels below it, or <dir> not on the path at all
KeyStates == {"none", "valid", "malformed"}
Watermarks == {"none", "enc", "dec"}
LenClasses == {"short", "inside", "exact", "long"}
Modes == {"read", "write"}
Tables == {"valid", "invalid"}

Layouts == [dir : DirNames, ext : Exts, nesting : Nestings, adjacent : KeyStates, redkey : KeyStates,
            watermark : Watermarks, len : LenClasses, mode : Modes, table : Tables]

IsPs3Iso(d) == d \in {"PS3ISO", "ps3iso", "Ps3Iso"}
IsIsoExt(e) == e \in {".iso", ".ISO", ".Iso"}
Facts(y) == [mode |-> y.mode, isIso |-> IsIsoExt(y.ext), inPs3iso |-> (IsPs3Iso(y.dir) /\ y.nesting # "outside"),
             adjacent |-> y.adjacent, redkey |-> IF y.nesting = "outside" THEN "none" ELSE y.redkey,
             watermark |-> y.watermark, longEnough |-> y.len \in {"exact", "long"}, tableValid |-> y.table = "valid"]

VARIABLE y
Init == y \in Layouts
Next == UNCHANGED y

(* exactly one specified outcome or Unspecified; writers always raw; masking only by watermark *)
Sane ==
  LET D == Decide(Facts(y)) IN
  /\ Cardinality(D) = 1
  /\ (y.mode = "write" => D = Raw)
  /\ \A o \in D : (o.masked /\ ~o.any) => (Facts(y).watermark # "none" /\ Facts(y).longEnough)
  /\ \A o \in D : (o.key = "A" => y.adjacent = "valid") /\ (o.key = "B" => (y.redkey = "valid" /\ y.adjacent = "none"))
                  /\ (o.key = "E" => y.watermark = "enc")

Emit == PrintT(<<"LAYOUT", ToJson([layout |-> y, facts |-> Facts(y), decision |-> CHOOSE o \in Decide(Facts(y)) : TRUE])>>)
GenInit == y \in Layouts /\ Emit
=============================================================================
