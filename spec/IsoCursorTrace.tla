--------------------------- MODULE IsoCursorTrace ---------------------------
(***************************************************************************)
(* Trace validation of file-like views against IsoCursor.                   *)
(*  Open  a view was opened; announced size, length of the canonical image   *)
(*        obtained by one sequential read, and whether that read succeeded   *)
(*  Op    one Read / ReadAt / Seek call with its results                     *)
(* A call on an instance that was re-opened (fresh) starts at cursor 0; the  *)
(* harness reports the cursor it observed before the call ("before").        *)
(***************************************************************************)
EXTENDS IsoCursor, IsoLayout, Json, TLC

Trace == ndJsonDeserialize("trace.ndjson")

CONSTANT Mode   \* "content" (C07: Represents) | "structure" (C08: ValidVolume) | "both"
LayoutMaxDirs == 200

VARIABLES l, total, pos, ok

tvars == <<l, total, pos, ok>>

IsEvent(e) == l <= Len(Trace) /\ Trace[l].ev = e /\ l' = l + 1

TraceInit == TLCSet(1, 0) /\ l = 1 /\ total = PZero /\ pos = PZero /\ ok = FALSE

(* C09 / C08: the image is one byte string whose length is the announced    *)
(* size, a whole number of sectors, and a sequential read delivers all of it *)
TraceOpen ==
  /\ IsEvent("Open")
  /\ LET e == Trace[l] IN
       IF e.huge    \* more data than 32-bit sector numbers of this model can express: refused, or announced at least that much
       THEN /\ (e.opened => PLe(<<2145386496, 0>>, e.announced))
            /\ total' = PZero /\ pos' = PZero /\ ok' = FALSE
       ELSE IF e.opened
       THEN /\ e.canon = "ok"
            /\ e.total = e.announced
            /\ e.total[2] = 0
            /\ total' = e.total /\ pos' = PZero /\ ok' = TRUE
       ELSE /\ OpenMayFail(e.tree, e.ps3)
            /\ total' = PZero /\ pos' = PZero /\ ok' = FALSE

TraceOp ==
  /\ IsEvent("Op")
  /\ ok
  /\ LET e == Trace[l]
         p == e.before     \* cursor observed before the call (0 on a fresh instance)
     IN /\ e.err # "panic"
        /\ CASE e.op = "read"   -> ReadOK(total, p, e.n, e.k, e.err, e.at, e.match, e.tell)
             [] e.op = "readat" -> ReadAtOK(total, p, e.n, e.off, e.k, e.err, e.at, e.match, e.tell)
             [] e.op = "seek"   -> SeekOK(total, p, e.off, e.whence, e.ret, e.err, e.tell)
        /\ (e.fresh \/ p = pos)    \* nothing moved the cursor between calls
        /\ pos' = e.tell
  /\ UNCHANGED <<total, ok>>

(* C07 / C08: the decoded volume is a valid ISO 9660 + Joliet (+PS3) volume   *)
(* and contains exactly the tree.  The names of the violated clauses are      *)
(* printed (<<"FAILED", case, clauses>>) before the event is rejected.        *)
TraceVolume ==
  /\ IsEvent("Volume")
  /\ LET e == Trace[l]
         failed == IF Mode = "content" THEN {} ELSE FailedClauses(e.vol, e.ps3, e.titleId)
         fc == IF Mode # "structure" /\ e.vol.decodeErrors = << >> THEN FailedContent(e.vol, e.tree)
               ELSE IF Mode # "structure" THEN {"NoDecodeErrors"} ELSE {}
     IN /\ (failed \cup fc # {} => PrintT(<<"FAILED", e.name, failed \cup fc>>))
        /\ failed = {} /\ fc = {}
        \* not a verdict: does the image also follow the reference layout (IsoLayout)?  Reported in the evidence.
        /\ PrintT(<<"LAYOUT", e.name, IF Len(e.vol.hier) = 2 /\ Len(e.vol.hier[1].dirs) <= LayoutMaxDirs THEN LayoutVerdict(e.vol) ELSE "skipped">>)
  /\ UNCHANGED <<total, pos, ok>>

(* C18: a further open of the same unchanged directory gives an image of the  *)
(* same size that differs from the first only in the documented variable      *)
(* fields (the harness lists differing byte ranges outside VarFields).        *)
TraceReopen ==
  /\ IsEvent("Reopen")
  /\ LET e == Trace[l] IN e.err = "" /\ e.size = e.first /\ e.diffs = << >>
  /\ UNCHANGED <<total, pos, ok>>

TraceNext == TraceOpen \/ TraceOp \/ TraceVolume \/ TraceReopen

HwmConstraint == TLCSet(1, IF TLCGet(1) < l - 1 THEN l - 1 ELSE TLCGet(1))
TraceAccepted ==
  /\ PrintT(<<"HWM", TLCGet(1)>>)
  /\ TLCGet(1) = Len(Trace)
=============================================================================
