------------------------------- MODULE Config -------------------------------
(***************************************************************************)
(* How the server gets its settings (README "Configuration",                 *)
(* cmd/ps3netsrv-go/main.go, pkg/kongini): every setting can be given as a   *)
(* command-line flag, as its environment variable, or as a key of the same   *)
(* name in the [server] section of an INI file found via --config /          *)
(* PS3NETSRV_CONFIG_FILE, ./config.ini or the user configuration directory;  *)
(* a flag always wins.  An invalid value of a security-relevant setting      *)
(* stops start-up.                                                           *)
(*                                                                           *)
(* An assignment maps channels to abstract values "V1" / "V2" / "BAD"; the   *)
(* harness turns them into concrete, distinguishable values per setting and  *)
(* reports which one took effect ("V1", "V2", "default") or that the binary  *)
(* refused to start ("refused").                                             *)
(***************************************************************************)
EXTENDS Integers, FiniteSets

Settings == {"root", "listen-addr", "allow-write", "client-whitelist", "max-clients", "read-timeout", "debug", "json-log",
             "debug-server-listen-addr"}
Security == {"root", "client-whitelist", "max-clients", "read-timeout"}
Channels == {"flag", "env", "configflag", "configenv", "cwdini", "userini"}
FileChannels == {"configflag", "configenv", "cwdini", "userini"}

(* assignment: a set of <<channel, value>> pairs for one setting *)
ChannelsOf(a) == { p[1] : p \in a }
ValueOf(a, ch) == (CHOOSE p \in a : p[1] = ch)[2]

(* allowed observations *)
Effective(a) ==
  IF a = {} THEN {"default"}
  ELSE IF \E p \in a : p[2] \in {"BAD", "EMPTY"} THEN {"refused"}            \* an invalid value is never silently ignored
  ELSE IF "flag" \in ChannelsOf(a) THEN {ValueOf(a, "flag")}               \* the command line always wins
  ELSE { p[2] : p \in a }                                                  \* among the other channels the order is not specified

Cases ==
     { [setting |-> s, assign |-> {<<ch, "V1">>}, kind |-> "alone"] : s \in Settings, ch \in Channels }
\cup { [setting |-> s, assign |-> {<<"flag", "V1">>, <<ch, "V2">>}, kind |-> "flagwins"] : s \in Settings, ch \in Channels \ {"flag"} }
\cup { [setting |-> s, assign |-> {<<ch, "BAD">>}, kind |-> "malformed"] : s \in Security, ch \in Channels }
\* a blank value is as invalid as garbage (for the settings whose type has no empty value)
\cup { [setting |-> s, assign |-> {<<ch, "EMPTY">>}, kind |-> "malformed"] : s \in {"client-whitelist", "max-clients", "read-timeout"}, ch \in Channels }
\* the channels must not depend on each other: no HOME / XDG_CONFIG_HOME in the environment (no user configuration directory)
\cup { [setting |-> s, assign |-> {<<ch, "V1">>}, kind |-> "nohome"] : s \in Settings, ch \in Channels \ {"userini"} }
\cup { [setting |-> s, assign |-> {}, kind |-> "default"] : s \in Settings }
=============================================================================
