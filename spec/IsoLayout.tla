------------------------------ MODULE IsoLayout ------------------------------
(***************************************************************************)
(* A reference layout of a generated image: how pkg/fs.VirtualISO arranges   *)
(* the volume (virtual_iso.go buildFSStructures / makeDirEntries /           *)
(* makePathTable / calculateSizes), written as a function from a scanned     *)
(* tree to the same abstract volume record that the harness's decoder        *)
(* produces from real images.  TLC then checks, for all small trees and for  *)
(* chosen large ones, that this scheme satisfies every clause of             *)
(* VirtualIso!ValidVolume and VirtualIso!Represents - the design-level half  *)
(* of C07 / C08.  (Real images are judged by the same clauses on their       *)
(* decoded form; they are NOT required to equal this layout.)                *)
(*                                                                           *)
(* Input: D, the directories in the order the generator processes them (root *)
(* first, every parent before its children); D[k] = [path, pl, jl, files]    *)
(* with files a sequence of [name, pl, jl, size, cid] in scan order; pl / jl *)
(* = length in bytes of the identifier in the primary / Joliet hierarchy.    *)
(* Both hierarchies of the layout spell names as given (what is compared     *)
(* with real images - IsoCursorTrace!LayoutConforms - is numbers only).      *)
(***************************************************************************)
EXTENDS VirtualIso

CONSTANT Variant   \* "good", or the name of a deliberately wrong scheme (vacuity guards, see MC_IsoLayout)

ExtentSectors == MaxExtentBytesSectors          \* 0xFFFFF800 / 2048
MaxSingle == <<ExtentSectors, 2047>>            \* 0xFFFFFFFF: largest file with a single extent

NameLenH(h, e) == IF h = 2 THEN e.jl ELSE e.pl

(* extents of a file of size S: <<length, multiFlag>> *)
RECURSIVE PartsFrom(_, _)
PartsFrom(S, n) ==   \* n full parts still to emit, then the rest
  IF n = 0 THEN << <<S, FALSE>> >>
  ELSE << <<<<ExtentSectors, 0>>, TRUE>> >> \o PartsFrom(PSub(S, <<ExtentSectors, 0>>), n - 1)
FileParts(S) ==
  IF PLe(S, MaxSingle) THEN << <<S, FALSE>> >>
  ELSE LET full == S[1] \div ExtentSectors
           rest == <<S[1] % ExtentSectors, S[2]>>
       IN IF rest = PZero
          THEN (IF Variant = "modulo" THEN PartsFrom(<<(full - 1) * ExtentSectors, 0>>, full - 1)   \* last extent = size % extent = 0
                ELSE PartsFrom(S, full - 1))
          ELSE PartsFrom(S, full)

ChildIdx(D, k) == SelectSeq([j \in 1..Len(D) |-> j], LAMBDA j : j # k /\ D[j].path # << >> /\ ParentPath(D[j].path) = D[k].path)
ParentIdx(D, k) == IF D[k].path = << >> THEN k ELSE CHOOSE j \in 1..Len(D) : D[j].path = ParentPath(D[k].path)
LastName(p) == p[Len(p)]

(* record skeletons of directory k in hierarchy h: [name, nameLen, isDir, file (index in D[k].files or 0), part, child (index in D or 0)] *)
RECURSIVE FileSkel(_, _, _)
FileSkel(h, files, i) ==
  IF i > Len(files) THEN << >>
  ELSE LET ps == FileParts(files[i].size) IN
       [p \in 1..Len(ps) |-> [name |-> files[i].name, nameLen |-> NameLenH(h, files[i]), isDir |-> FALSE, file |-> i, part |-> p, child |-> 0]]
       \o FileSkel(h, files, i + 1)
Skeleton(D, h, k) ==
  << [name |-> ".", nameLen |-> 1, isDir |-> TRUE, file |-> 0, part |-> 0, child |-> k],
     [name |-> "..", nameLen |-> 1, isDir |-> TRUE, file |-> 0, part |-> 0, child |-> ParentIdx(D, k)] >>
  \o FileSkel(h, D[k].files, 1)
  \o [i \in 1..Len(ChildIdx(D, k)) |->
        LET j == ChildIdx(D, k)[i] IN
        [name |-> LastName(D[j].path), nameLen |-> NameLenH(h, D[j]), isDir |-> TRUE, file |-> 0, part |-> 0, child |-> j]]

(* sector packing: a record that does not fit into the rest of the sector starts the next one *)
RECURSIVE PackFrom(_, _, _)
PackFrom(sk, i, cur) ==
  IF i > Len(sk) THEN << >>
  ELSE LET l == RecordLenFor(sk[i].nameLen)
           at == IF SectorSize - (cur % SectorSize) < l /\ Variant # "straddle" THEN ((cur \div SectorSize) + 1) * SectorSize ELSE cur
       IN <<at>> \o PackFrom(sk, i + 1, at + l)
Offsets(sk) == PackFrom(sk, 1, 0)
DirBytesOf(sk) ==
  LET offs == Offsets(sk)
      endb == offs[Len(sk)] + RecordLenFor(sk[Len(sk)].nameLen)
  IN ((endb + SectorSize - 1) \div SectorSize) * SectorSize
RECURSIVE SumTo(_, _)
SumTo(f, n) == IF n = 0 THEN 0 ELSE f[n] + SumTo(f, n - 1)

PtNameLen(D, h, k) == IF k = 1 THEN 1 ELSE NameLenH(h, D[k])

(* Everything that is needed more than once, computed once: T.sk[h][k] record skeletons, T.offs[h][k] their      *)
(* offsets, T.dsect[h][k] directory sizes in sectors, T.fsect[k][i] file sizes in sectors, T.dfsect[k] their sum  *)
Tables(D) ==
  LET n == Len(D)
      sk == [h \in 1..2 |-> [k \in 1..n |-> Skeleton(D, h, k)]]
      offs == [h \in 1..2 |-> [k \in 1..n |-> Offsets(sk[h][k])]]
      dsect == [h \in 1..2 |-> [k \in 1..n |->
                  LET e == offs[h][k][Len(sk[h][k])] + RecordLenFor(sk[h][k][Len(sk[h][k])].nameLen)
                  IN (e + SectorSize - 1) \div SectorSize]]
      fsect == [k \in 1..n |-> [i \in 1..Len(D[k].files) |-> PSectors(D[k].files[i].size)]]
      dfsect == [k \in 1..n |-> SumTo(fsect[k], Len(D[k].files))]
      ptb == [h \in 1..2 |-> SumTo([k \in 1..n |-> PathRecordNameOffset + PtNameLen(D, h, k) + (PtNameLen(D, h, k) % 2)], n)]
      pts == [h \in 1..2 |-> (ptb[h] + SectorSize - 1) \div SectorSize]
      iso == SystemAreaSectors + 3 + 1 + 2 * pts[1] + 2 * pts[2]
      jol == iso + SumTo(dsect[1], n)
      fls == jol + SumTo(dsect[2], n)
      raw == fls + SumTo(dfsect, n)
  IN [n |-> n, sk |-> sk, offs |-> offs, dsect |-> dsect, fsect |-> fsect, dfsect |-> dfsect, ptb |-> ptb, pts |-> pts,
      iso |-> iso, jol |-> jol, fls |-> fls, raw |-> raw,
      total |-> raw + PadSectors + (IF raw % PadSectors > 0 THEN PadSectors - (raw % PadSectors) ELSE 0)]

DirLBA(T, h, k) == (IF h = 2 /\ Variant # "sharedirs" THEN T.jol ELSE T.iso) + SumTo(T.dsect[h], k - 1)
(* files occupy consecutive sector runs in scan order; an empty file occupies none *)
FileLBA(T, k, i) == T.fls + SumTo(T.dfsect, k - 1) + SumTo(T.fsect[k], i - 1)
PartLBA(T, k, i, p) == FileLBA(T, k, i) + (p - 1) * ExtentSectors
LTableLBA(T, h) == SystemAreaSectors + 3 + 1 + (IF h = 2 THEN 2 * T.pts[1] ELSE 0)

Rec(D, T, h, k, i) ==
  LET s == T.sk[h][k][i]
      isFile == ~s.isDir
      part == IF isFile THEN FileParts(D[k].files[s.file].size)[s.part] ELSE <<PZero, FALSE>>
      ext == IF isFile THEN P(PartLBA(T, k, s.file, s.part)) ELSE P(DirLBA(T, h, s.child))
      dl == IF isFile THEN part[1]
            ELSE IF Variant = "dotdot" /\ s.name = ".." THEN P(T.dsect[h][k] * SectorSize)
            ELSE P(T.dsect[h][s.child] * SectorSize)
      l == RecordLenFor(s.nameLen)
      off == T.offs[h][k][i]
  IN [off |-> off, len |-> l, xattrLen |-> 0, extentL |-> ext, extentM |-> ext, dataLenL |-> dl, dataLenM |-> dl,
      flags |-> IF s.isDir THEN FlagDirectory ELSE IF part[2] THEN FlagMultiExtent ELSE 0, unitSize |-> 0, gap |-> 0,
      volSeqL |-> P(1), volSeqM |-> P(1), nameLen |-> s.nameLen, name |-> s.name,
      fileIdx |-> s.file, base |-> IF isFile THEN <<(s.part - 1) * ExtentSectors, 0>> ELSE PZero,
      straddles |-> (off \div SectorSize) # ((off + l - 1) \div SectorSize)]

DirOf(D, T, h, k) ==
  [path |-> D[k].path, lba |-> P(DirLBA(T, h, k)), len |-> P(T.dsect[h][k] * SectorSize),
   recs |-> [i \in 1..Len(T.sk[h][k]) |-> Rec(D, T, h, k, i)], tailZero |-> TRUE]

RECURSIVE FilesOf(_, _, _, _)
FilesOf(D, dirs, h, k) ==
  IF k > Len(D) THEN << >>
  ELSE LET fr == SelectSeq(dirs[k].recs, LAMBDA y : y.flags # FlagDirectory) IN
       [r \in 1..Len(fr) |->
          LET x == fr[r] IN
          [path |-> Append(D[k].path, x.name), lba |-> x.extentL, len |-> x.dataLenL, multi |-> x.flags = FlagMultiExtent,
           wins |-> IF x.dataLenL = PZero THEN << >>
                    ELSE << [rel |-> PZero, alt |-> << >>, altAt |-> [off |-> PZero, srcs |-> << >>],
                             runs |-> << [srcs |-> <<D[k].files[x.fileIdx].cid>>, off |-> x.base,
                                          len |-> IF PLe(x.dataLenL, P(SectorSize)) THEN PInt(x.dataLenL) ELSE SectorSize] >>] >>,
           padZero |-> TRUE]]
       \o FilesOf(D, dirs, h, k + 1)

PathTableOf(D, T, h) ==
  [k \in 1..Len(D) |-> [off |-> 0, nameLen |-> PtNameLen(D, h, k), xattrLen |-> 0, extent |-> P(DirLBA(T, h, k)),
                        parent |-> P(ParentIdx(D, k)), name |-> IF k = 1 THEN "." ELSE LastName(D[k].path)]]

HierOf(D, T, h) ==
  LET dirs == [k \in 1..Len(D) |-> DirOf(D, T, h, k)] IN
  [joliet |-> h = 2, lTable |-> PathTableOf(D, T, h), mTable |-> PathTableOf(D, T, h),
   lTableLba |-> P(LTableLBA(T, h)), mTableLba |-> P(LTableLBA(T, h) + T.pts[h]), tableSize |-> P(T.ptb[h]),
   dirs |-> dirs, files |-> FilesOf(D, dirs, h, 1)]

DescOf(T, hr, h) ==
  [lba |-> FirstDescriptorLBA + h - 1, type |-> h, id |-> "CD001", version |-> 1, escapes |-> IF h = 2 THEN JolietEscape ELSE "",
   spaceSizeL |-> P(T.total), spaceSizeM |-> P(T.total), setSizeL |-> P(1), setSizeM |-> P(1),
   seqNoL |-> P(1), seqNoM |-> P(1), blockSizeL |-> P(SectorSize), blockSizeM |-> P(SectorSize),
   pathTableSizeL |-> P(T.ptb[h]), pathTableSizeM |-> P(T.ptb[h]),
   lPathTable |-> P(LTableLBA(T, h)), mPathTable |-> P(LTableLBA(T, h) + T.pts[h]),
   rootRecord |-> [hr.dirs[1].recs[1] EXCEPT !.off = 0], fsVersion |-> 1, tailZero |-> TRUE]

Layout(D, ps3) ==
  LET T == Tables(D)
      H == << HierOf(D, T, 1), HierOf(D, T, 2) >>
  IN
  [total |-> <<T.total, 0>>,
   descs |-> << DescOf(T, H[1], 1), DescOf(T, H[2], 2), [lba |-> FirstDescriptorLBA + 2, type |-> 255, id |-> "CD001", version |-> 1, restZero |-> TRUE] >>,
   hier |-> H,
   ps3 |-> IF ps3 THEN [regionCount |-> P(1), regionStart |-> PZero, regionEnd |-> P(T.total - 1), consoleId |-> "PlayStation3",
                        productId |-> "BLES-01234", restZero |-> TRUE]
           ELSE [regionCount |-> PZero, regionStart |-> PZero, regionEnd |-> PZero, consoleId |-> "", productId |-> "", restZero |-> TRUE],
   systemAreaZero |-> ~ps3, decodeErrors |-> << >>]

(* --------------------------------------------------------------------------- *)
(* Conformance of a real image with the reference layout.  From the decoded     *)
(* volume only the ORDER of things and the inputs are taken - directories in    *)
(* path-table order, files in record order, identifier lengths, file sizes -    *)
(* and every number of the layout (offsets, extents, lengths, flags, table      *)
(* places and sizes, volume size) is then required to be what Layout derives.   *)
RECURSIVE GroupFiles(_, _, _, _)
GroupFiles(recs, jrecs, i, acc) ==
  IF i > Len(recs) THEN << >>
  ELSE IF recs[i].flags = FlagDirectory THEN GroupFiles(recs, jrecs, i + 1, PZero)
  ELSE IF recs[i].flags = FlagMultiExtent THEN GroupFiles(recs, jrecs, i + 1, PAdd(acc, recs[i].dataLenL))
  ELSE << [name |-> recs[i].name, pl |-> recs[i].nameLen, jl |-> jrecs[i].nameLen, size |-> PAdd(acc, recs[i].dataLenL), cid |-> ""] >>
       \o GroupFiles(recs, jrecs, i + 1, PZero)

Reconstructible(vol) ==
  /\ Len(vol.hier) = 2
  /\ Len(vol.hier[1].lTable) = Len(vol.hier[1].dirs) /\ Len(vol.hier[2].lTable) = Len(vol.hier[1].lTable)
  /\ Len(vol.hier[2].dirs) = Len(vol.hier[1].dirs)
  /\ \A h \in 1..2 : \A i \in DOMAIN vol.hier[h].lTable :
        Cardinality({ d \in SeqSet(vol.hier[h].dirs) : d.lba = vol.hier[h].lTable[i].extent }) = 1
  /\ \A i \in DOMAIN vol.hier[1].lTable :
        LET d1 == CHOOSE d \in SeqSet(vol.hier[1].dirs) : d.lba = vol.hier[1].lTable[i].extent
            d2 == CHOOSE d \in SeqSet(vol.hier[2].dirs) : d.lba = vol.hier[2].lTable[i].extent
        IN Len(d1.recs) = Len(d2.recs) /\ Len(d1.path) = Len(d2.path)

DFromVolume(vol) ==
  LET L1 == vol.hier[1].lTable
      L2 == vol.hier[2].lTable
  IN [k \in DOMAIN L1 |->
        LET d1 == CHOOSE d \in SeqSet(vol.hier[1].dirs) : d.lba = L1[k].extent
            d2 == CHOOSE d \in SeqSet(vol.hier[2].dirs) : d.lba = L2[k].extent
        IN [path |-> d1.path, pl |-> L1[k].nameLen, jl |-> L2[k].nameLen, files |-> GroupFiles(d1.recs, d2.recs, 1, PZero)]]

NumRec(r) == <<r.off, r.len, r.extentL, r.dataLenL, r.flags, r.nameLen>>
Numbers(v) ==
  [total |-> v.total,
   hier |-> [h \in 1..2 |->
      [lt |-> v.hier[h].lTableLba, mt |-> v.hier[h].mTableLba, ts |-> v.hier[h].tableSize,
       tab |-> [i \in DOMAIN v.hier[h].lTable |-> <<v.hier[h].lTable[i].nameLen, v.hier[h].lTable[i].extent, v.hier[h].lTable[i].parent>>],
       dirs |-> { <<d.lba, d.len, [i \in DOMAIN d.recs |-> NumRec(d.recs[i])]>> : d \in SeqSet(v.hier[h].dirs) }]]]

(* "same" | "differs" | "n/a" (volume not decodable enough to reconstruct the input, or names collide) *)
LayoutVerdict(vol) ==
  IF vol.decodeErrors # << >> \/ ~Reconstructible(vol) THEN "n/a"
  ELSE LET D == DFromVolume(vol) IN
       IF Cardinality({ D[k].path : k \in DOMAIN D }) # Len(D) \/ D[1].path # << >> THEN "n/a"
       ELSE IF Numbers(Layout(D, FALSE)) = Numbers(vol) THEN "same" ELSE "differs"

(* the same tree in the form the harness reports a source directory *)
RECURSIVE TreeFrom(_, _)
TreeFrom(D, k) ==
  IF k > Len(D) THEN << >>
  ELSE (IF D[k].path = << >> THEN << >>
        ELSE << [path |-> D[k].path, kind |-> "dir", size |-> PZero, cid |-> "",
                 name |-> [raw |-> LastName(D[k].path), upper |-> LastName(D[k].path), portable |-> TRUE,
                           bytes |-> Len(LastName(D[k].path)), utf16units |-> Len(LastName(D[k].path))], sparse |-> FALSE] >>)
       \o [i \in 1..Len(D[k].files) |->
             [path |-> Append(D[k].path, D[k].files[i].name), kind |-> "file", size |-> D[k].files[i].size, cid |-> D[k].files[i].cid,
              name |-> [raw |-> D[k].files[i].name, upper |-> D[k].files[i].name, portable |-> TRUE,
                        bytes |-> Len(D[k].files[i].name), utf16units |-> Len(D[k].files[i].name)], sparse |-> FALSE]]
       \o TreeFrom(D, k + 1)
TreeOf(D) == TreeFrom(D, 1)
=============================================================================
