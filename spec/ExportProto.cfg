INIT Init
NEXT Next
