---------------------------- MODULE MC_CdSector ----------------------------
(***************************************************************************)
(* C17 at the design level: sector-size detection (SigOf / SectorFor) and    *)
(* the byte ranges of READ_CD_2048 (CDRuns), checked for every combination   *)
(* of                                                                        *)
(*   - up to two planted marks drawn from the true signature positions of    *)
(*     all seven sector sizes (both tags) and from decoys (right position    *)
(*     with the other tag's displacement, two bytes early, a sector late),   *)
(*   - object sizes below / at / inside / at / above the detection window,   *)
(*   - (start, count) requests incl. ranges that cross the end of the object *)
(* against definitions written a second time with plain integers.            *)
(***************************************************************************)
EXTENDS Ps3Handlers, TLC

TruePos(ss, tag) == PAdd(SigPos(ss), IF tag = "PSX" THEN P(8) ELSE PZero)
TrueMarks == { [off |-> TruePos(ss, tag), tag |-> tag] : ss \in { CDSectorSizes[i] : i \in DOMAIN CDSectorSizes }, tag \in {"CD001", "PSX"} }
Decoys == { [off |-> SigPos(ss), tag |-> "PSX"] : ss \in {2048, 2352} }                        \* PSX tag where CD001 belongs
          \cup { [off |-> PAdd(SigPos(ss), P(8)), tag |-> "CD001"] : ss \in {2048, 2352} }     \* and the other way round
          \cup { [off |-> PSub(SigPos(2352), P(2)), tag |-> "CD001"], [off |-> PAdd(SigPos(2352), P(2352)), tag |-> "CD001"],
                 [off |-> PSub(TruePos(2448, "PSX"), P(2)), tag |-> "PSX"] }
MarkSets == { {} } \cup { {a} : a \in TrueMarks \cup Decoys } \cup { {a, b} : a \in TrueMarks, b \in TrueMarks \cup Decoys }
SizesMC == { P(CDDetectMin - 1), P(CDDetectMin), P(CDDetectMin + 70001), P(CDDetectMax), P(CDDetectMax + 1), P(100000) }

SetToSeq(S) == CHOOSE s \in [1..Cardinality(S) -> S] : \A i, j \in DOMAIN s : i # j => s[i] # s[j]
NodeOf(ms, size) == [p |-> <<"img">>, kind |-> "file", size |-> size, cid |-> "c", vcid |-> "c", vsize |-> size, mtime |-> 0, ctime |-> 0,
                     target |-> << >>, marks |-> SetToSeq(ms), unk |-> FALSE, any |-> FALSE]

VARIABLE c
Init == c \in { [k |-> "detect", ms |-> ms, size |-> size] : ms \in MarkSets, size \in SizesMC }
          \cup { [k |-> "read", sect |-> CDSectorSizes[i], size |-> sz, start |-> st, count |-> ct]
                 : i \in DOMAIN CDSectorSizes, sz \in {0, 23, 24, 25, 2071, 2072, 2073, 10000, 24 + 4 * 2448, 24 + 4 * 2352 + 100}, st \in 0..5, ct \in 0..4 }
Next == UNCHANGED c

(* ---- detection, second definition: the smallest listed size that has a true mark; the window on the object size *)
SizesWithTrueMark(ms) == { ss \in { CDSectorSizes[i] : i \in DOMAIN CDSectorSizes } : \E m \in ms : \E tag \in {"CD001", "PSX"} : m = [off |-> TruePos(ss, tag), tag |-> tag] }
FirstListed(S) == CDSectorSizes[CHOOSE i \in DOMAIN CDSectorSizes : CDSectorSizes[i] \in S /\ \A j \in 1..(i - 1) : CDSectorSizes[j] \notin S]
InWindow(size) == PLe(P(CDDetectMin), size) /\ PLe(size, P(CDDetectMax))
Detection ==
  c.k = "detect" =>
    LET n == NodeOf(c.ms, c.size)
        got == SectorFor(n.vsize, SigOf(n))
        S == SizesWithTrueMark(c.ms)
    IN got = (IF InWindow(c.size) /\ S # {} THEN FirstListed(S) ELSE DefaultCDSector)

(* ---- sector reads, second definition with integers: sector j of the request delivers min(2048, max(0, size - (24 + (start+j)*sect))) bytes *)
(* from that offset; the stream is the concatenation up to and including the first short sector                                             *)
Deliver(size, sect, s) == LET off == 24 + s * sect IN IF size <= off THEN 0 ELSE IF size - off < 2048 THEN size - off ELSE 2048
RECURSIVE Expected(_, _, _, _)
Expected(size, sect, s, left) ==
  IF left = 0 THEN << >>
  ELSE LET n == Deliver(size, sect, s) IN
       IF n < 2048 THEN << <<24 + s * sect, n>> >> ELSE << <<24 + s * sect, n>> >> \o Expected(size, sect, s + 1, left - 1)
Reads ==
  c.k = "read" =>
    LET runs == CDRuns("c", P(c.size), c.sect, c.start, c.count)
        exp == Expected(c.size, c.sect, c.start, c.count)
    IN /\ Len(runs) = Len(exp)
       /\ \A i \in DOMAIN runs : runs[i].src = "c" /\ runs[i].off = P(exp[i][1]) /\ runs[i].len = exp[i][2]
       \* user bytes only: no run touches the 24-byte prefix or the bytes after the 2048 user bytes of its sector
       /\ \A i \in DOMAIN runs : LET o == PInt(runs[i].off) IN (o - 24) % c.sect = 0 /\ runs[i].len <= 2048 /\ o + runs[i].len <= (IF c.size > o THEN c.size ELSE o)
=============================================================================
