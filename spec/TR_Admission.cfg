CONSTANTS
  Clients = {1, 2, 3, 4, 5, 6, 7, 8, 9, 10, 11, 12, 13, 14, 15, 16, 17, 18, 19, 20, 21, 22, 23, 24, 25, 26, 27, 28, 29, 30, 31, 32, 33, 34, 35, 36, 37, 38, 39, 40}
  Limit = 0
  Allowed = {}
INIT TraceInit
NEXT TraceNext
CONSTRAINT HwmConstraint
INVARIANTS TraceAtMostN TraceSlots
POSTCONDITION TraceAccepted
CHECK_DEADLOCK FALSE
