------------------------------ MODULE MC_Config ------------------------------
EXTENDS Config, TLC, Json
VARIABLE c
Init == c \in Cases
Next == UNCHANGED c
(* every case has a non-empty set of allowed observations; a flag decides alone *)
Sane == /\ Effective(c.assign) # {}
        /\ ("flag" \in ChannelsOf(c.assign) /\ ValueOf(c.assign, "flag") # "BAD" /\ ~\E p \in c.assign : p[2] = "BAD")
              => Cardinality(Effective(c.assign)) = 1
Emit == PrintT(<<"CASE", ToJson([setting |-> c.setting, kind |-> c.kind, assign |-> { [ch |-> p[1], v |-> p[2]] : p \in c.assign }])>>)
GenInit == c \in Cases /\ Emit
=============================================================================
