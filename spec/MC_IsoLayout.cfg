CONSTANTS
  Variant = "good"
  MaxFiles = 2
  SizeSet = {1, 2, 3, 5, 6, 7}
  Wide <- WideQuick
INIT Init
NEXT Next
INVARIANT Structure
INVARIANT Content
INVARIANT SelfConforms
CHECK_DEADLOCK FALSE
