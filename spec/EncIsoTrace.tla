------------------------------ MODULE EncIsoTrace ------------------------------
(***************************************************************************)
(* Trace validation of fs.EncryptedISO / fs.ISO3k3y (C10) against            *)
(* EncryptedIso (what each byte must be) and IsoCursor (how reads, seeks and *)
(* positional reads move over the byte string).                              *)
(***************************************************************************)
EXTENDS EncryptedIso, IsoCursor, ImageKind, Json, TLC

Trace == ndJsonDeserialize("trace.ndjson")

VARIABLES l, cfg, total, pos, ok
tvars == <<l, cfg, total, pos, ok>>

IsEvent(e) == l <= Len(Trace) /\ Trace[l].ev = e /\ l' = l + 1
NoCfg == [regions |-> << >>, clear |-> FALSE, masked |-> FALSE, decrypting |-> FALSE, key |-> "k"]

TraceInit == TLCSet(1, 0) /\ l = 1 /\ cfg = NoCfg /\ total = PZero /\ pos = PZero /\ ok = FALSE

(* invalid tables are rejected with an error (never a panic); valid ones open *)
TraceEncOpen ==
  /\ IsEvent("EncOpen")
  /\ ~Trace[l].layout
  /\ LET e == Trace[l] IN
       /\ e.panic = ""
       /\ (e.decrypting => ((ValidTable(e.regions, e.count) => e.opened) /\ (e.opened => WellFormed(e.regions, e.count))))
       /\ (~e.decrypting => e.opened)
       /\ (e.opened => e.announced = e.total)
       /\ cfg' = [regions |-> e.regions, clear |-> e.clear, masked |-> e.masked, decrypting |-> e.decrypting, key |-> "k"]
       /\ total' = e.total /\ pos' = PZero /\ ok' = e.opened

(* C11: the image was opened through the server's file system: which         *)
(* transformation applies is ImageKind!Decide of the layout facts             *)
TraceKindOpen ==
  /\ IsEvent("EncOpen")
  /\ Trace[l].layout
  /\ LET e == Trace[l] IN
       /\ e.panic = ""
       /\ \E o \in Decide(e.facts) :
            /\ (~o.any => e.opened = o.opens)
            /\ (e.opened => e.announced = e.total)
            /\ cfg' = [regions |-> e.regions, clear |-> FALSE, masked |-> o.masked, decrypting |-> o.decrypting, key |-> o.key]
            /\ ok' = (e.opened /\ ~o.any)       \* unspecified outcome: the reads are not judged
       /\ total' = e.total /\ pos' = PZero

TraceSkippedOp ==    \* reads of an image whose treatment is unspecified, or that did not open
  /\ IsEvent("EncOp")
  /\ ~ok
  /\ Trace[l].err # "panic"
  /\ UNCHANGED <<cfg, total, pos, ok>>

(* The underlying file ended early during this call (C10: "underlying reads   *)
(* cut at arbitrary points"): fewer bytes and an error are in order - wrong   *)
(* bytes are not, and the cursor still follows what was returned.            *)
CutCallOK(e, p, match) ==
  /\ match
  /\ e.k >= 0 /\ e.k <= e.n
  /\ e.tell = (IF e.op = "read" THEN PAdd(p, P(e.k)) ELSE p)
  /\ (e.k > 0 => e.at = (IF e.op = "read" THEN p ELSE e.off))

TraceEncOp ==
  /\ IsEvent("EncOp")
  /\ ok
  /\ LET e == Trace[l]
         p == e.before
         match == SegsOK(cfg, e.segs)
     IN /\ e.err # "panic"
        /\ CASE e.under /\ e.op \in {"read", "readat"} -> CutCallOK(e, p, match)
             [] e.op = "read"   -> ReadOK(total, p, e.n, e.k, e.err, e.at, match, e.tell)
             [] e.op = "readat" -> ReadAtOK(total, p, e.n, e.off, e.k, e.err, e.at, match, e.tell)
             [] e.op = "seek"   -> SeekOK(total, p, e.off, e.whence, e.ret, e.err, e.tell)
        /\ (e.fresh \/ p = pos)
        /\ pos' = e.tell
  /\ UNCHANGED <<cfg, total, ok>>

TraceNext == TraceEncOpen \/ TraceKindOpen \/ TraceEncOp \/ TraceSkippedOp

HwmConstraint == TLCSet(1, IF TLCGet(1) < l - 1 THEN l - 1 ELSE TLCGet(1))
TraceAccepted ==
  /\ PrintT(<<"HWM", TLCGet(1)>>)
  /\ TLCGet(1) = Len(Trace)
=============================================================================
