CONSTANTS
  Variant = "good"
  MaxFiles = 3
  SizeSet = {1, 2, 3, 4, 5, 6, 7, 8, 9}
  Wide <- WideThorough
INIT Init
NEXT Next
INVARIANT Structure
INVARIANT Content
INVARIANT SelfConforms
CHECK_DEADLOCK FALSE
