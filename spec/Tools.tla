-------------------------------- MODULE Tools --------------------------------
(***************************************************************************)
(* The offline tools of the CLI (cmd/ps3netsrv-go: make-iso, decrypt redump, *)
(* decrypt 3k3y) and their output target (internal/kongutil outputfile):     *)
(*   target "absent"   a path that does not exist: created, holds the image  *)
(*          "stdout"   "-": the image and nothing else goes to standard out   *)
(*          "file" / "dir"  an existing object: the tool refuses and the      *)
(*                     object is left bit-identical                           *)
(* With invalid input the tool ends with an error exit (never a crash).      *)
(***************************************************************************)
EXTENDS Integers

Targets == {"absent", "stdout", "file", "emptyfile", "dir"}

(* observation o: [exit ("ok"|"error"|"crash"), imageAtTarget, stdoutIsImage, stdoutEmpty, preexistingSame] *)
RunOK(inputOk, target, o) ==
  /\ o.exit # "crash"
  /\ o.preexistingSame                                   \* whatever happens, nothing that existed is altered
  /\ IF ~inputOk THEN o.exit = "error"
     ELSE CASE target = "absent" -> o.exit = "ok" /\ o.imageAtTarget
            [] target = "stdout" -> o.exit = "ok" /\ o.stdoutIsImage      \* the image and only the image
            [] target \in {"file", "emptyfile", "dir"} -> o.exit = "error"      \* an existing file is existing whatever its size
=============================================================================
