INIT Init
NEXT Next
INVARIANT Detection
INVARIANT Reads
CHECK_DEADLOCK FALSE
