INIT GenInit
NEXT Next
CHECK_DEADLOCK FALSE
