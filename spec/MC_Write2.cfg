\* two connections, writing enabled: interleaved mutation, staling of listing cursors
CONSTANTS
  Conns = {1, 2}
  AllowWrite = TRUE
  MaxReqs = 2
  InitFs <- MCInitFs
  Views <- MCViews
  ReqAlphabet <- MCReqsSmall
INIT Init
NEXT Next
INVARIANTS TypeOK WriteGate ListingExactlyOnce LedgerBalanced OneResponse Isolation
PROPERTIES NoWriteThroughViews
CHECK_DEADLOCK FALSE
