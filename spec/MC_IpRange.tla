----------------------------- MODULE MC_IpRange -----------------------------
(***************************************************************************)
(* Exhaustive cross-check of the byte-wise definition (IpRange) against an   *)
(* integer definition of the documented sets, in an 8-bit "IPv4" / 16-bit    *)
(* "IPv6" address space (V4Len = 1... the mapped form needs 2 marker bytes,   *)
(* so V6Len = 4: 1 zero byte, 2 x 0xFF, 1 address byte).                     *)
(***************************************************************************)
EXTENDS IpRange, TLC, FiniteSets

Addr4 == { <<x>> : x \in 0..255 }
Sample == {0, 1, 2, 3, 64, 127, 128, 129, 200, 254, 255}
Specs ==
       { [kind |-> "single", fam |-> 4, a |-> <<x>>, b |-> <<0>>, p |-> 0, mask |-> <<0>>, okA |-> TRUE, okB |-> TRUE, okMask |-> TRUE] : x \in Sample }
  \cup { [kind |-> "range", fam |-> 4, a |-> <<x>>, b |-> <<y>>, p |-> 0, mask |-> <<0>>, okA |-> TRUE, okB |-> TRUE, okMask |-> TRUE] : x \in Sample, y \in Sample }
  \cup { [kind |-> "cidr", fam |-> 4, a |-> <<x>>, b |-> <<0>>, p |-> p, mask |-> <<0>>, okA |-> TRUE, okB |-> TRUE, okMask |-> TRUE] : x \in Sample \cup {37, 90}, p \in -1..9 }
  \cup { [kind |-> "mask", fam |-> 4, a |-> <<x>>, b |-> <<0>>, p |-> 0, mask |-> <<m>>, okA |-> TRUE, okB |-> TRUE, okMask |-> TRUE] : x \in Sample \cup {37, 90}, m \in 0..255 }

VARIABLE s
Init == s \in Specs
Next == UNCHANGED s

(* the documented set, on integers *)
Block(a, p) == { x \in 0..255 : x \div (2 ^ (8 - p)) = a \div (2 ^ (8 - p)) }
Min(S) == CHOOSE x \in S : \A y \in S : x <= y
Max(S) == CHOOSE x \in S : \A y \in S : x >= y
Hosts(B) == IF Cardinality(B) <= 2 THEN B ELSE B \ {Min(B), Max(B)}
IsContig(m) == m \in {0, 128, 192, 224, 240, 248, 252, 254, 255}
BitsOf(m) == CHOOSE k \in 0..8 : 256 - 2 ^ (8 - k) = m
Documented ==
  CASE s.kind = "single" -> {s.a[1]}
    [] s.kind = "range"  -> { x \in 0..255 : s.a[1] <= x /\ x <= s.b[1] }
    [] s.kind = "cidr"   -> Hosts(Block(s.a[1], s.p))
    [] s.kind = "mask"   -> Hosts(Block(s.a[1], BitsOf(s.mask[1])))
DocAccepts ==
  CASE s.kind = "single" -> TRUE
    [] s.kind = "range"  -> s.a[1] <= s.b[1]
    [] s.kind = "cidr"   -> s.p \in 0..8
    [] s.kind = "mask"   -> IsContig(s.mask[1])

Agrees ==
  /\ Accepts(s) = DocAccepts
  /\ Accepts(s) => /\ { x \in 0..255 : Denotes(s, <<x>>) } = Documented
                   \* the mapped 4-byte form of the same address is treated alike, other "IPv6" addresses are outside
                   /\ \A x \in 0..255 : Denotes(s, <<0, 255, 255, x>>) = Denotes(s, <<x>>)
                   /\ \A x \in Sample : ~Denotes(s, <<1, 255, 255, x>>)
=============================================================================
