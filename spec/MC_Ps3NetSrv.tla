---------------------------- MODULE MC_Ps3NetSrv ----------------------------
(***************************************************************************)
(* Bounded instance of Ps3NetSrv for TLC: a small world with one node of    *)
(* every kind the handlers distinguish and a request alphabet that covers   *)
(* every opcode with boundary arguments.  Also the session generator: with  *)
(* GenCases, every transition TLC explores prints the request history that  *)
(* leads to it (<<"CASE", json>>), which the harness replays against the    *)
(* real server (model -> code direction).                                   *)
(***************************************************************************)
EXTENDS Ps3NetSrv, Json

N(p, kind, size, cid, target) ==
  [p |-> p, kind |-> kind, size |-> size, cid |-> cid, vcid |-> cid, vsize |-> size,
   mtime |-> 1500000000 + Len(p) * 100 + (PInt(size) % 97), ctime |-> 1600000000, target |-> target, marks |-> << >>, unk |-> FALSE, any |-> FALSE]

MCInitFs == {
  N(<< >>, "dir", PZero, "", << >>),
  N(<<"d">>, "dir", PZero, "", << >>),
  N(<<"d", "f1">>, "file", P(3000), "src_f1", << >>),
  N(<<"d", "e">>, "file", PZero, "", << >>),
  N(<<"d", "s">>, "dir", PZero, "", << >>),
  N(<<"d", "s", "g">>, "file", P(10), "src_g", << >>),
  N(<<"f">>, "file", P(70000), "src_f", << >>),
  N(<<"l">>, "link", PZero, "", <<"d", "f1">>),
  N(<<"dl">>, "link", PZero, "", <<"nowhere">>),
  N(<<"empty">>, "dir", PZero, "", << >>)
}

MCViews == [ k \in { <<"dvd", <<"d">>>> } |-> [cid |-> "viso:dvd:/d", size |-> P(200 * 2048)] ]

R(op, path, limit, off, start, count, plen, chunk) ==
  [op |-> op, path |-> path, limit |-> P(limit), off |-> P(off), start |-> start, count |-> count,
   plen |-> plen, chunk |-> chunk, hugeArgs |-> FALSE, of |-> "", cut |-> 0, bad |-> << >>]
RP(op, path) == R(op, path, 0, 0, 0, 0, 0, "")
R0(op) == R(op, << >>, 0, 0, 0, 0, 0, "")

Paths == { <<"", "d">>, <<"", "d", "f1">>, <<"", "f">>, <<"", "l">>, <<"", "dl">>, <<"", "empty">>, <<"", "nope">>,
           <<"", "d", "..", "..", "f">>, <<"", "***DVD***", "d">>, <<"", "d", "new">> }

MCReqs ==
     { RP(op, p) : op \in {"OPEN_DIR", "STAT_FILE", "OPEN_FILE", "GET_DIR_SIZE"}, p \in Paths }
\cup { RP("OPEN_FILE", <<"", "CLOSEFILE">>) }
\cup { R0(op) : op \in {"READ_DIR_ENTRY", "READ_DIR_ENTRY_V2", "READ_DIR"} }
\cup { R(op, << >>, lim, off, 0, 0, 0, "") : op \in {"READ_FILE", "READ_FILE_CRITICAL"}, lim \in {0, 10, 4000}, off \in {0, 2999, 3000, 69995} }
\cup { R("READ_CD_2048", << >>, 0, 0, st, ct, 0, "") : st \in {0, 1, 29}, ct \in {0, 1, 2} }
\cup { RP(op, p) : op \in {"CREATE_FILE", "DELETE_FILE", "MKDIR", "RMDIR"},
                   p \in { <<"", "d", "new">>, <<"", "d", "e">>, <<"", "empty">>, <<"", "d">>, <<"", "***DVD***", "d">>, <<"", "nope", "x">> } }
\cup { R("WRITE_FILE", << >>, 0, 0, 0, 0, n, "w1") : n \in {0, 3} }
\cup { R0("BAD_OPCODE") }

(* a smaller alphabet for the multi-connection configurations               *)
MCReqsSmall ==
     { RP("OPEN_DIR", p) : p \in { <<"", "d">>, <<"", "f">> } }
\cup { RP("OPEN_FILE", p) : p \in { <<"", "d", "f1">>, <<"", "***DVD***", "d">>, <<"", "CLOSEFILE">> } }
\cup { RP("STAT_FILE", <<"", "d", "new">>) }
\cup { R0(op) : op \in {"READ_DIR_ENTRY", "READ_DIR"} }
\cup { R("READ_FILE", << >>, 10, 2995, 0, 0, 0, ""), R("READ_FILE_CRITICAL", << >>, 10, 2995, 0, 0, 0, "") }
\cup { R("READ_CD_2048", << >>, 0, 0, 0, 1, 0, "") }
\cup { RP("CREATE_FILE", <<"", "d", "new">>), RP("DELETE_FILE", <<"", "d", "e">>), RP("MKDIR", <<"", "d", "new">>),
       RP("RMDIR", <<"", "empty">>) }
\cup { R("WRITE_FILE", << >>, 0, 0, 0, 0, 3, "w1") }

(* history as JSON: one CASE line per explored transition                   *)
EmitCase(c) == PrintT(<<"CASE", ToJson([reqs |-> [i \in DOMAIN hist'[c] |-> hist'[c][i].req]])>>)
GenNext == \E c \in Conns : Connect(c) \/ \E r \in ReqAlphabet : (Request(c, r) /\ EmitCase(c))

WorldJson == PrintT(<<"WORLD", ToJson([nodes |-> InitFs, views |-> { [vk |-> k[1], p |-> k[2]] : k \in DOMAIN Views }])>>)
GenInit == Init /\ WorldJson
=============================================================================
