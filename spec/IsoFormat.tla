------------------------------ MODULE IsoFormat ------------------------------
(***************************************************************************)
(* ECMA-119 (ISO 9660) / Joliet / PS3 disc constants: where each field      *)
(* lives.  Exported as JSON (ExportIso.cfg); the harness's image decoder    *)
(* ("isodec") is a fixed-offset reader driven by these tables, and the      *)
(* "documented variable fields" masks of C18 come from here too.            *)
(*                                                                         *)
(* field = <<name, offset, width, encoding>> with encoding                  *)
(*   "u8" | "lsbmsb16" (4 bytes) | "lsbmsb32" (8 bytes) | "le32" | "be32" |  *)
(*   "le16" | "be16" | "str" | "dec17" (17-byte date) | "rec7" (7-byte date) *)
(***************************************************************************)
EXTENDS Integers, Sequences

SectorSize == 2048
SystemAreaSectors == 16
FirstDescriptorLBA == 16

(* Volume descriptor (primary type 1, supplementary type 2, terminator 255) *)
VolDescFields == <<
  <<"type", 0, 1, "u8">>, <<"id", 1, 5, "str">>, <<"version", 6, 1, "u8">>,
  <<"flags", 7, 1, "u8">>,
  <<"systemId", 8, 32, "str">>, <<"volumeId", 40, 32, "str">>,
  <<"spaceSize", 80, 8, "lsbmsb32">>, <<"escapes", 88, 32, "str">>,
  <<"setSize", 120, 4, "lsbmsb16">>, <<"seqNo", 124, 4, "lsbmsb16">>, <<"blockSize", 128, 4, "lsbmsb16">>,
  <<"pathTableSize", 132, 8, "lsbmsb32">>,
  <<"lPathTable", 140, 4, "le32">>, <<"optLPathTable", 144, 4, "le32">>,
  <<"mPathTable", 148, 4, "be32">>, <<"optMPathTable", 152, 4, "be32">>,
  <<"rootRecord", 156, 34, "record">>,
  <<"created", 813, 17, "dec17">>, <<"modified", 830, 17, "dec17">>,
  <<"expires", 847, 17, "dec17">>, <<"effective", 864, 17, "dec17">>,
  <<"fsVersion", 881, 1, "u8">>
>>

(* Directory record (ECMA-119 9.1) *)
DirRecordFields == <<
  <<"len", 0, 1, "u8">>, <<"xattrLen", 1, 1, "u8">>,
  <<"extent", 2, 8, "lsbmsb32">>, <<"dataLen", 10, 8, "lsbmsb32">>,
  <<"date", 18, 7, "rec7">>, <<"flags", 25, 1, "u8">>,
  <<"unitSize", 26, 1, "u8">>, <<"gap", 27, 1, "u8">>,
  <<"volSeq", 28, 4, "lsbmsb16">>, <<"nameLen", 32, 1, "u8">>
>>
DirRecordNameOffset == 33
FlagDirectory == 2
FlagMultiExtent == 128

(* Path table record (ECMA-119 9.4): both byte orders *)
PathRecordFields == <<
  <<"nameLen", 0, 1, "u8">>, <<"xattrLen", 1, 1, "u8">>, <<"extent", 2, 4, "ord32">>, <<"parent", 6, 2, "ord16">>
>>
PathRecordNameOffset == 8

JolietEscape == "%/@"          \* UCS-2 level 1 (the generator's choice)
MaxExtentBytesSectors == 2097151  \* 0xFFFFF800 / 2048: largest extent of a multi-extent file
PadSectors == 32               \* image size is rounded up to, and padded by, 0x20 sectors

(* PS3 game disc: sector 0 = plain-region table, sector 1 = disc info       *)
Ps3RegionCountOffset == 0      \* be32 number of plain regions
Ps3RegionFirstOffset == 8      \* be32 start, be32 end (inclusive) of region 0
Ps3ConsoleIdOffset == 2048     \* "PlayStation3" padded with spaces to 16
Ps3ProductIdOffset == 2064     \* e.g. "BCES-00104" padded with spaces to 32
Ps3RandomFrom == 2112          \* sector 1 bytes 0x40 .. 0x200: random filler
Ps3RandomTo == 2560

(* C18: the only bytes that may differ between two images of one unchanged  *)
(* tree: creation / modification time of both descriptors, and in PS3 mode   *)
(* the random filler of sector 1.  <<from, to>> byte ranges.                 *)
DescOffset(i) == (FirstDescriptorLBA + i) * SectorSize
VarFields(ps3) ==
  << <<DescOffset(0) + 813, DescOffset(0) + 847>>, <<DescOffset(1) + 813, DescOffset(1) + 847>> >>
  \o (IF ps3 THEN << <<Ps3RandomFrom, Ps3RandomTo>> >> ELSE << >>)

IsoTable == [sector |-> SectorSize, firstDesc |-> FirstDescriptorLBA,
             volDesc |-> VolDescFields, dirRecord |-> DirRecordFields, dirRecordName |-> DirRecordNameOffset,
             pathRecord |-> PathRecordFields, pathRecordName |-> PathRecordNameOffset,
             flagDir |-> FlagDirectory, flagMulti |-> FlagMultiExtent,
             varPlain |-> VarFields(FALSE), varPs3 |-> VarFields(TRUE),
             ps3 |-> [regionCount |-> Ps3RegionCountOffset, regionFirst |-> Ps3RegionFirstOffset,
                      consoleId |-> Ps3ConsoleIdOffset, productId |-> Ps3ProductIdOffset]]
=============================================================================
