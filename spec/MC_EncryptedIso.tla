--------------------------- MODULE MC_EncryptedIso ---------------------------
(***************************************************************************)
(* Small-scope exhaustive look at the region-table semantics and generator   *)
(* of region tables (valid and every invalid class) for the conformance run. *)
(***************************************************************************)
EXTENDS EncryptedIso, TLC, Json

CONSTANTS MaxSector, MaxLen

Pairs == (0..MaxSector) \X (0..MaxSector)
RECURSIVE TablesUpTo(_)
TablesUpTo(n) == IF n = 0 THEN { << >> }
                 ELSE LET S == TablesUpTo(n - 1) IN S \cup { Append(t, p) : t \in { t \in S : Len(t) = n - 1 }, p \in Pairs }
Tables == TablesUpTo(MaxLen)

VARIABLE t
Init == t \in Tables
Next == UNCHANGED t

InPlain(regions, s) == \E i \in DOMAIN regions : regions[i][1] <= s /\ s <= regions[i][2]

(* in a valid table no sector is both plain and encrypted, every sector below *)
(* the last region's end is one or the other, sectors after it are plain       *)
Partition ==
  ValidTable(t, P(Len(t))) =>
    \A s \in 0..(MaxSector + 1) :
      /\ ~(InPlain(t, s) /\ Encrypted(t, s))
      /\ (s <= t[Len(t)][2] => (InPlain(t, s) \/ Encrypted(t, s)))
      /\ (s > t[Len(t)][2] => ~Encrypted(t, s))
(* sector 0 (the table itself) is never encrypted *)
HeaderPlain == ValidTable(t, P(Len(t))) => ~Encrypted(t, 0)

Emit == PrintT(<<"TABLE", ToJson([regions |-> t, valid |-> ValidTable(t, P(Len(t)))])>>)
GenInit == t \in Tables /\ Emit
=============================================================================
