------------------------------ MODULE Ps3NetSrv ------------------------------
(***************************************************************************)
(* The ps3netsrv server as a state machine: a shared tree and a set of      *)
(* connections, each private state machine driven by requests               *)
(* (pkg/server.serveConn: read command -> handle -> exactly one response).  *)
(* Handlers are the pure operators of Ps3Handlers.                          *)
(*                                                                         *)
(* Connection life: "idle" (not connected) -> "serving" -> "closed".        *)
(* A request is one atomic step: the connection state is private to its     *)
(* goroutine and every tree mutation is a single system call.               *)
(* Teardown (deferred ctx.Close -> State.Close) releases every handle.      *)
(***************************************************************************)
EXTENDS Ps3Handlers

CONSTANTS Conns,        \* connection identifiers
          AllowWrite,   \* --allow-write
          InitFs,       \* initial tree
          Views,        \* generated images that exist: <<vk, path>> -> [cid, size]
          ReqAlphabet,  \* requests a client may send
          MaxReqs       \* bound on requests per connection (model checking only)

VARIABLES fs, conn, hist, lst

vars == <<fs, conn, hist, lst>>

MutOps == {"CREATE_FILE", "WRITE_FILE", "DELETE_FILE", "MKDIR", "RMDIR"}
ListOps == {"READ_DIR_ENTRY", "READ_DIR_ENTRY_V2", "READ_DIR"}

NoListing == [on |-> FALSE, want |-> {}, got |-> {}, n |-> 0, done |-> FALSE]

Init ==
  /\ fs = InitFs
  /\ conn = [c \in Conns |-> [st |-> "idle", cs |-> InitCs]]
  /\ hist = [c \in Conns |-> << >>]
  /\ lst = [c \in Conns |-> NoListing]

Connect(c) ==
  /\ conn[c].st = "idle"
  /\ conn' = [conn EXCEPT ![c].st = "serving"]
  /\ UNCHANGED <<fs, hist, lst>>

(* listing bookkeeping (history variable for ListingExactlyOnce)            *)
NextListing(old, cs0, cs1, r, resp) ==
  IF r.op = "OPEN_DIR"
  THEN IF resp = Res4(0) THEN [on |-> TRUE, want |-> cs1.dir.pending, got |-> {}, n |-> 0, done |-> FALSE] ELSE
       IF cs1.dir = cs0.dir THEN old ELSE NoListing
  ELSE IF ~old.on \/ cs0.dir.undef \/ cs1.dir.undef THEN NoListing
  ELSE IF r.op \in {"READ_DIR_ENTRY", "READ_DIR_ENTRY_V2"}
       THEN IF resp.size = PNeg1 THEN [old EXCEPT !.done = TRUE]
            ELSE [old EXCEPT !.got = @ \cup {resp.name}, !.n = @ + 1]
  ELSE IF r.op = "READ_DIR"
       THEN [old EXCEPT !.got = @ \cup { e.name : e \in resp.ents }, !.n = @ + Cardinality(resp.ents), !.done = TRUE]
  ELSE old

(* a change in a directory stales the listing cursors of every connection   *)
StaleAll(cn, oldfs, newfs) ==
  LET dirs == { Parent(n.p) : n \in { n \in (oldfs \ newfs) \cup (newfs \ oldfs) : n.p # << >> } }
  IN [d \in DOMAIN cn |-> IF cn[d].cs.dir.open /\ cn[d].cs.dir.path \in dirs
                           THEN [cn[d] EXCEPT !.cs.dir.undef = TRUE] ELSE cn[d]]

Request(c, r) ==
  /\ conn[c].st = "serving"
  /\ Len(hist[c]) < MaxReqs
  /\ \E o \in Handle(conn[c].cs, fs, r, AllowWrite, Views) :
       /\ fs' = o.fs
       /\ conn' = StaleAll([conn EXCEPT ![c] = IF o.close THEN [st |-> "closed", cs |-> InitCs]
                                                  ELSE [st |-> "serving", cs |-> o.cs]], fs, o.fs)
       /\ hist' = [hist EXCEPT ![c] = Append(@, [req |-> r, resp |-> o.resp, close |-> o.close])]
       /\ lst' = [lst EXCEPT ![c] = IF o.close THEN NoListing ELSE NextListing(@, conn[c].cs, o.cs, r, o.resp)]

(* the client hangs up (or the read timeout fires): teardown                *)
Hangup(c) ==
  /\ conn[c].st = "serving"
  /\ conn' = [conn EXCEPT ![c] = [st |-> "closed", cs |-> InitCs]]
  /\ lst' = [lst EXCEPT ![c] = NoListing]
  /\ UNCHANGED <<fs, hist>>

Next ==
  \E c \in Conns : Connect(c) \/ Hangup(c) \/ \E r \in ReqAlphabet : Request(c, r)

Spec == Init /\ [][Next]_vars

(***************************************************************************)
(* Properties                                                              *)
(***************************************************************************)
TypeOK ==
  /\ \A c \in Conns : conn[c].st \in {"idle", "serving", "closed"}
  /\ \A n \in fs : n.kind \in {"dir", "file", "link"}
  /\ Exists(fs, << >>)

(* C05 read-only by default: nothing under the root ever changes and every  *)
(* mutating request is refused with -1                                      *)
WriteGate ==
  ~AllowWrite =>
    /\ fs = InitFs
    /\ \A c \in Conns : \A i \in DOMAIN hist[c] :
         hist[c][i].req.op \in MutOps => hist[c][i].resp = Res4(-1)

(* C05 generated images can never be written through: a request that names  *)
(* a virtual-image path never changes the tree                              *)
NoWriteThroughViews ==
  [][\A c \in Conns :
       (Len(hist'[c]) > Len(hist[c]) /\
        LET r == hist'[c][Len(hist'[c])].req IN
          r.op \in PathOps /\ ~Escapes(r.path) /\ VirtualKind(Norm(r.path)) # "generic")
       => fs' = fs]_vars

(* C06 every entry of an opened directory is reported exactly once, then    *)
(* the end marker                                                           *)
ListingExactlyOnce ==
  \A c \in Conns :
    lst[c].on => /\ lst[c].n = Cardinality(lst[c].got)      \* no duplicates
                 /\ lst[c].got \subseteq lst[c].want         \* nothing foreign ("." ".." included)
                 /\ (lst[c].done => lst[c].got = lst[c].want)

(* C13 a closed connection owns nothing; a serving one at most one handle   *)
(* per role                                                                 *)
LedgerBalanced ==
  \A c \in Conns : conn[c].st # "serving" => Owned(conn[c].cs) = {}

(* C03 exactly one response per answered request; after a close nothing     *)
OneResponse ==
  \A c \in Conns : \A i \in DOMAIN hist[c] :
    /\ (hist[c][i].close => i = Len(hist[c]))
    /\ (hist[c][i].resp.k = "None" => hist[c][i].close \/ hist[c][i].req.op \in {"READ_FILE_CRITICAL", "READ_CD_2048"})

(* C12 isolation (read-only server): what a connection receives is what it  *)
(* would receive alone.  SoloRuns replays its own requests on the initial   *)
(* tree.                                                                    *)
RECURSIVE SoloRuns(_, _, _, _)
SoloRuns(cs, fsys, reqs, acc) ==
  IF reqs = << >> THEN {acc}
  ELSE UNION { IF o.close THEN {Append(acc, [resp |-> o.resp, close |-> TRUE])}
               ELSE SoloRuns(o.cs, o.fs, Tail(reqs), Append(acc, [resp |-> o.resp, close |-> FALSE]))
               : o \in Handle(cs, fsys, Head(reqs), AllowWrite, Views) }
Isolation ==
  ~AllowWrite =>
    \A c \in Conns :
      [i \in DOMAIN hist[c] |-> [resp |-> hist[c][i].resp, close |-> hist[c][i].close]]
        \in SoloRuns(InitCs, InitFs, [i \in DOMAIN hist[c] |-> hist[c][i].req], << >>)

(* Views hide the history so that TLC explores each abstract state once.    *)
StateView == <<fs, conn, lst>>
=============================================================================
