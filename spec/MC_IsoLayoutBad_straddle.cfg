\* vacuity guard: the "straddle" scheme is wrong and TLC has to say so
CONSTANTS
  Variant = "straddle"
  MaxFiles = 1
  SizeSet = {1, 2, 7}
  Wide <- WideQuick
INIT Init
NEXT Next
INVARIANT Structure
INVARIANT Content
CHECK_DEADLOCK FALSE
