------------------------------ MODULE IsoCursor ------------------------------
(***************************************************************************)
(* A file-like view over ONE FIXED BYTE STRING of length Total               *)
(* (fs.VirtualISO, fs.EncryptedISO, fs.ISO3k3y all promise this):            *)
(* the io.Reader / io.Seeker / io.ReaderAt contracts, written as a cursor    *)
(* machine.  The content itself is not modelled: the harness reports for     *)
(* each call whether the returned bytes equal the corresponding slice        *)
(* [at, at+n) of the canonical image ("match"), and where that slice starts; *)
(* the machine decides which slice, which length and which error are right.  *)
(*                                                                           *)
(* Calls (op):                                                               *)
(*   read   n          -> returns k bytes from the cursor, advances by k     *)
(*   readat n, off     -> returns bytes [off, off+k), cursor untouched       *)
(*   seek   off, whence-> moves the cursor                                   *)
(* Results: k (bytes returned), err in {"nil","EOF","other"}, at (start of   *)
(* the slice the bytes were compared with), match, tell (cursor afterwards,  *)
(* as reported by Seek(0, current)).                                         *)
(***************************************************************************)
EXTENDS Integers, Sequences, Pos

(* Read(n) at cursor pos.                                                   *)
(*  - n = 0: nothing is returned (error value unspecified)                  *)
(*  - at or past the end: (0, EOF)                                          *)
(*  - otherwise a non-empty prefix of what is available (a short read is    *)
(*    legal for io.Reader), error nil - or EOF if it reaches the end        *)
ReadOK(total, pos, n, k, err, at, match, tell) ==
  IF n = 0 THEN k = 0 /\ tell = pos
  ELSE IF PLe(total, pos) THEN k = 0 /\ err = "EOF" /\ tell = pos
  ELSE LET avail == PMin(PSub(total, pos), P(n)) IN
       /\ k >= 1 /\ PLe(P(k), avail)
       /\ at = pos /\ match
       /\ tell = PAdd(pos, P(k))
       /\ (err = "nil" \/ (err = "EOF" /\ tell = total))

(* ReadAt(n, off): all of [off, min(off+n, total)) - never short without    *)
(* reaching the end; the cursor does not move.                              *)
ReadAtOK(total, pos, n, off, k, err, at, match, tell) ==
  /\ tell = pos
  /\ IF PIsNeg(off) THEN k = 0 /\ err = "other"
     ELSE IF n = 0 THEN k = 0
     ELSE IF PLe(total, off) THEN k = 0 /\ err = "EOF"
     ELSE LET avail == PMin(PSub(total, off), P(n)) IN
          /\ P(k) = avail
          /\ at = off /\ match
          /\ err \in {"nil", "EOF"}     \* (io.ReaderAt wants EOF when k < n; the properties do not)

(* Seek: new position = base + off with base = 0 / cursor / total.           *)
(* A negative result is an error and leaves the cursor alone.  A position    *)
(* past the end is accepted (like a regular file) or refused - both leave    *)
(* the byte string intact; which one is bound from the observation.          *)
SeekTarget(total, pos, off, whence) ==
  CASE whence = 0 -> off
    [] whence = 1 -> PAdd(pos, off)
    [] whence = 2 -> PAdd(total, off)
    [] OTHER -> PNeg1
SeekOK(total, pos, off, whence, ret, err, tell) ==
  LET t == SeekTarget(total, pos, off, whence) IN
  IF whence \notin {0, 1, 2} \/ PIsNeg(t) THEN err = "other" /\ tell = pos
  ELSE IF PLt(total, t) THEN (err = "other" /\ tell = pos) \/ (err = "nil" /\ ret = t /\ tell = t)
  ELSE err = "nil" /\ ret = t /\ tell = t
=============================================================================
