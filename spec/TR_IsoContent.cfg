CONSTANT Variant = "good"
CONSTANT Mode = "content"
INIT TraceInit
NEXT TraceNext
CONSTRAINT HwmConstraint
POSTCONDITION TraceAccepted
CHECK_DEADLOCK FALSE
