------------------------------ MODULE PathRes ------------------------------
(***************************************************************************)
(* Lexical path algebra of the server.                                     *)
(*                                                                         *)
(* A wire path is the byte string of a request split at '/' into segments   *)
(* (the harness does the split and nothing else).  The server must turn it  *)
(* into a rooted, cleaned path below the served root:                       *)
(*   Go:  filepath.Clean("/" + name)  - drop "" and ".", let ".." cancel    *)
(*        the previous element, never rise above the root.                  *)
(* Virtual image prefixes are recognised on the cleaned path.               *)
(***************************************************************************)
EXTENDS Integers, Sequences, FiniteSets

DotDot == ".."
Dot == "."

RECURSIVE CleanAbs(_, _)
CleanAbs(acc, segs) ==
  IF segs = << >> THEN acc
  ELSE LET h == Head(segs)
           t == Tail(segs)
       IN IF h = "" \/ h = Dot THEN CleanAbs(acc, t)
          ELSE IF h = DotDot
               THEN CleanAbs(IF acc = << >> THEN << >> ELSE SubSeq(acc, 1, Len(acc) - 1), t)
               ELSE CleanAbs(Append(acc, h), t)

(* The normal form every wire path must be given before it reaches the      *)
(* filesystem: a sequence of names, relative to the served root, without    *)
(* "", "." or "..".  << >> is the root itself.                              *)
Norm(segs) == CleanAbs(<< >>, segs)

(* Does the wire path, read lexically, try to rise above the root at some    *)
(* point?  For such paths the server may either clamp (Norm) or answer       *)
(* exactly as for a path that does not exist - nothing else.                 *)
RECURSIVE EscapesFrom(_, _)
EscapesFrom(depth, segs) ==
  IF segs = << >> THEN FALSE
  ELSE LET h == Head(segs) IN
       IF h = "" \/ h = Dot THEN EscapesFrom(depth, Tail(segs))
       ELSE IF h = DotDot THEN (depth = 0 \/ EscapesFrom(depth - 1, Tail(segs)))
       ELSE EscapesFrom(depth + 1, Tail(segs))
Escapes(segs) == EscapesFrom(0, segs)
NoSuchPath == <<"#nonexistent", "#x">>

DvdMask == "***DVD***"
Ps3Mask == "***PS3***"

(* Kind of object a normalised path names: a generated image of the        *)
(* directory Tail(p) (plain / PS3 mode), or the path itself.                *)
VirtualKind(p) ==
  IF Len(p) >= 2 /\ p[1] = DvdMask THEN "dvd"
  ELSE IF Len(p) >= 2 /\ p[1] = Ps3Mask THEN "ps3"
  ELSE "generic"
VirtualTarget(p) == IF VirtualKind(p) = "generic" THEN p ELSE Tail(p)

IsPrefixPath(a, b) == Len(a) <= Len(b) /\ SubSeq(b, 1, Len(a)) = a
Parent(p) == SubSeq(p, 1, Len(p) - 1)
Base(p) == p[Len(p)]

(***************************************************************************)
(* The *mechanism* of the dependency the server relies on                  *)
(* (afero.BasePathFs.RealPath): join, clean, then test that the resulting   *)
(* path STRING has the base path STRING as a prefix.  Modelled on segments  *)
(* with a relation StrPrefix(a, b) "the name a is a string prefix of the    *)
(* name b" supplied by the model (e.g. "g" is a prefix of "g-").            *)
(*                                                                         *)
(* base: absolute segments of the root.  name: raw wire segments.           *)
(* leadingSlash: whether the wire path started with '/' (Join makes no      *)
(* difference, kept for documentation).                                     *)
(* Result: the real absolute path, or <<"#ERR">> when the prefix test       *)
(* fails.                                                                   *)
(***************************************************************************)
RECURSIVE CleanFrom(_, _)
CleanFrom(acc, segs) == CleanAbs(acc, segs)   \* Clean(Join(base, name)): ".." may eat into base

MechRealPath(base, name, StrPrefix(_, _)) ==
  LET real == CleanFrom(base, name)
      n == Len(base)
      strPrefixOk ==
        \/ n = 0
        \/ /\ Len(real) >= n
           /\ SubSeq(real, 1, n - 1) = SubSeq(base, 1, n - 1)
           /\ (real[n] = base[n] \/ (StrPrefix(base[n], real[n])))
  IN IF strPrefixOk THEN real ELSE <<"#ERR">>

(* With the wire path normalised first, the mechanism can no longer leave   *)
(* the base: this is what a fix must establish.                             *)
SafeRealPath(base, name) == base \o Norm(name)
=============================================================================
