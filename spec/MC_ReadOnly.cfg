\* two connections on a read-only server: WriteGate and Isolation
CONSTANTS
  Conns = {1, 2}
  AllowWrite = FALSE
  MaxReqs = 2
  InitFs <- MCInitFs
  Views <- MCViews
  ReqAlphabet <- MCReqsSmall
INIT Init
NEXT Next
INVARIANTS TypeOK WriteGate ListingExactlyOnce LedgerBalanced OneResponse Isolation
PROPERTIES NoWriteThroughViews
CHECK_DEADLOCK FALSE
