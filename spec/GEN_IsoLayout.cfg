\* prints every small case of MC_IsoLayout as a tree for the real generator (model -> code)
CONSTANTS
  Variant = "good"
  MaxFiles = 2
  SizeSet = {1, 2, 4, 6, 7, 8}
  Wide <- WideNone
INIT Init
NEXT Next
CONSTRAINT EmitTree
CHECK_DEADLOCK FALSE
