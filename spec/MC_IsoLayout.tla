---------------------------- MODULE MC_IsoLayout ----------------------------
(***************************************************************************)
(* Exhaustive check of the reference layout (IsoLayout) against the clauses  *)
(* real images are judged by (VirtualIso): for every small tree - up to      *)
(* three directories in every nesting, up to MaxFiles files spread over them *)
(* in every way, each with every size of Sizes (empty, one byte, exactly one *)
(* sector, one byte more, the largest single extent, one byte more, exactly  *)
(* two full extents, one byte more) - and for a family of wide directories   *)
(* whose records end just before, exactly at and just after a sector end.    *)
(* Each case is one initial state; the invariants are evaluated in each.     *)
(*                                                                           *)
(* Variant = "good" must pass.  The other variants re-create defects this    *)
(* code base really had (record straddling a sector, ".." carrying the wrong *)
(* length, a zero-length last extent for exact multiples, both hierarchies   *)
(* sharing directory extents): each must FAIL, which shows the clauses have  *)
(* bite at the design level (vacuity guard, checked by tools/props/c08.py).  *)
(***************************************************************************)
EXTENDS IsoLayout, TLC, Json

CONSTANTS MaxFiles, SizeSet, Wide

AllSizes == << PZero, P(1), P(SectorSize), P(SectorSize + 1), MaxSingle, <<ExtentSectors + 1, 0>>,
               <<2 * ExtentSectors, 0>>, <<2 * ExtentSectors, 1>>, <<ExtentSectors, 0>> >>
Sizes == { AllSizes[i] : i \in SizeSet }

Shapes == { << << >> >>,
            << << >>, <<"A">> >>,
            << << >>, <<"A">>, <<"BB">> >>,
            << << >>, <<"A">>, <<"A", "BB">> >>,
            << << >>, <<"LONGNAME.DIR">>, <<"LONGNAME.DIR", "SUB">> >> }
Names == <<"F", "GG", "HHH.X">>

Slots(sh) == (1..Len(sh)) \X (1..Len(Names))
Choices(sh) == { c \in SUBSET Slots(sh) : Cardinality(c) <= MaxFiles }

DirFiles(sh, k, c, sz) ==
  LET idx == SelectSeq(<<1, 2, 3>>, LAMBDA n : <<k, n>> \in c) IN
  [i \in 1..Len(idx) |-> [name |-> Names[idx[i]], pl |-> Len(Names[idx[i]]), jl |-> 2 * Len(Names[idx[i]]), size |-> sz[<<k, idx[i]>>],
                     cid |-> "c" \o ToString(k) \o ToString(idx[i])]]

CasesOf(sh, ch) ==
  { [k |-> "case", D |-> [d \in 1..Len(sh) |-> [path |-> sh[d], pl |-> IF d = 1 THEN 1 ELSE Len(LastName(sh[d])), jl |-> IF d = 1 THEN 1 ELSE 2 * Len(LastName(sh[d])),
                                        files |-> DirFiles(sh, d, ch, sz)]], ps3 |-> ps3]
    : sz \in [ch -> Sizes], ps3 \in BOOLEAN }

(* wide directories: n files with names of a given length, then one subdirectory with m files *)
Digits == <<"0", "1", "2", "3", "4", "5", "6", "7", "8", "9">>
Num3(i) == Digits[((i \div 100) % 10) + 1] \o Digits[((i \div 10) % 10) + 1] \o Digits[(i % 10) + 1]
Pad(L) == IF L = 0 THEN "" ELSE IF L = 1 THEN "X" ELSE IF L = 5 THEN "XXXXX" ELSE IF L = 12 THEN "XXXXXXXXXXXX" ELSE "XXXXXXXXXXXXXXXXXXXXXXXXXXXXXX"
WideDir(path, n, L) == [path |-> path, pl |-> IF path = << >> THEN 1 ELSE Len(LastName(path)), jl |-> IF path = << >> THEN 1 ELSE 2 * Len(LastName(path)),
                        files |-> [i \in 1..n |-> [name |-> Num3(i) \o Pad(L), pl |-> 3 + L, jl |-> 2 * (3 + L), size |-> P(i % 3), cid |-> "w" \o Num3(i)]]]
WideCases ==
  { [k |-> "case", D |-> << WideDir(<< >>, w[1], w[2]), WideDir(<<"SUB">>, w[3], w[2]) >>, ps3 |-> FALSE] : w \in Wide }

WideQuick == { <<54, 1, 3>>, <<55, 1, 3>>, <<56, 1, 3>>, <<60, 12, 40>> }
WideThorough == WideQuick \cup { <<n, L, 2>> : n \in {30, 31, 32, 33, 108, 109, 110, 111, 112, 165, 166, 167}, L \in {1, 12} }
                          \cup { <<n, 5, 1>> : n \in 46..50 } \cup { <<200, 30, 60>> }
WideNone == {}

(* three levels so that TLC's workers share the work: root -> (shape, file slots) -> cases *)
VARIABLE c
Init == c = [k |-> "root"]
Next == \/ c.k = "root" /\ \E sh \in Shapes : \E ch \in Choices(sh) : c' = [k |-> "pick", sh |-> sh, ch |-> ch]
        \/ c.k = "root" /\ \E w \in Wide : c' = [k |-> "pickwide", w |-> w]
        \/ c.k = "pick" /\ c' \in CasesOf(c.sh, c.ch)
        \/ c.k = "pickwide" /\ c' \in { x \in WideCases : x.D[1].files = WideDir(<< >>, c.w[1], c.w[2]).files /\ Len(x.D[2].files) = c.w[3] }

Vol == Layout(c.D, c.ps3)
TitleId == <<"BLES", "01234">>
Structure == c.k = "case" => FailedClauses(Vol, c.ps3, TitleId) = {}
Content == c.k = "case" => FailedContent(Vol, TreeOf(c.D)) = {}

(* reconstruction (IsoLayout!DFromVolume) inverts the layout: what is compared with real images is well defined *)
SelfConforms == c.k = "case" => LayoutVerdict(Vol) = "same"

(* model -> code: every case as a tree for the real generator (GEN_IsoLayout.cfg, -workers 1) *)
EmitTree ==
  (c.k = "case" /\ ~c.ps3) =>
    PrintT(<<"TREE", ToJson([k \in DOMAIN c.D |-> [path |-> c.D[k].path,
                                                    files |-> [i \in DOMAIN c.D[k].files |-> [name |-> c.D[k].files[i].name, size |-> c.D[k].files[i].size]]]])>>)

(* exercised, not only satisfied: cases with a multi-extent file, and with a record pushed to the next sector, *)
(* must exist (MC_IsoLayoutVacuity.cfg claims they do not and has to fail)                                     *)
HasMulti(v) == \E f \in SeqSet(v.hier[1].files) : f.multi
HasPush(v) == \E d \in SeqSet(v.hier[2].dirs) : \E i \in 2..Len(d.recs) : d.recs[i].off # d.recs[i-1].off + d.recs[i-1].len
NeverMulti == c.k = "case" => ~HasMulti(Vol)
NeverPush == c.k = "case" => ~HasPush(Vol)
=============================================================================
