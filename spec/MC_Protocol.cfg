\* one connection, every request sequence up to MaxReqs, writing enabled
CONSTANTS
  Conns = {1}
  AllowWrite = TRUE
  MaxReqs = 3
  InitFs <- MCInitFs
  Views <- MCViews
  ReqAlphabet <- MCReqs
INIT Init
NEXT Next
INVARIANTS TypeOK WriteGate ListingExactlyOnce LedgerBalanced OneResponse
PROPERTIES NoWriteThroughViews
CHECK_DEADLOCK FALSE
