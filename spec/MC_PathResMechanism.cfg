\* expected to FAIL: documents why the dependency's prefix test alone does not confine
CONSTANTS MaxLen = 3
INIT Init
NEXT Next
INVARIANTS MechanismAloneConfines
CHECK_DEADLOCK FALSE
