----------------------------- MODULE ToolsTrace -----------------------------
(***************************************************************************)
(* C20 conformance: runs of the real CLI.                                    *)
(*   MakeIso  the produced bytes were compared (outside VarFields) with the  *)
(*            image the library serves for the same directory and mode       *)
(*   Decrypt  the produced bytes are classified segment by segment against   *)
(*            the stored image (raw / zero / decrypted under the key); what  *)
(*            each segment must be is EncryptedIso!SegClass with header      *)
(*            clearing on, and - for 3k3y - the watermark/key area masked    *)
(*            (so that the output is served back without a second            *)
(*            transformation)                                                *)
(***************************************************************************)
EXTENDS Tools, EncryptedIso, Json, TLC

Trace == ndJsonDeserialize("trace.ndjson")
VARIABLE l
IsEvent(e) == l <= Len(Trace) /\ Trace[l].ev = e /\ l' = l + 1
TraceInit == TLCSet(1, 0) /\ l = 1

TraceMakeIso ==
  /\ IsEvent("MakeIso")
  /\ RunOK(Trace[l].inputOk, Trace[l].target, Trace[l].obs)

DecryptCfg(e) == [regions |-> e.regions, clear |-> TRUE, masked |-> e.tool = "3k3y", decrypting |-> TRUE, key |-> "k"]
TraceDecrypt ==
  /\ IsEvent("Decrypt")
  /\ LET e == Trace[l]
         content == e.gotLen = e.rawLen /\ SegsOK(DecryptCfg(e), e.segs)
         o == [e.obs EXCEPT !.imageAtTarget = @ /\ content, !.stdoutIsImage = @ /\ content]
     IN RunOK(e.inputOk, e.target, o)

TraceNext == TraceMakeIso \/ TraceDecrypt
HwmConstraint == TLCSet(1, IF TLCGet(1) < l - 1 THEN l - 1 ELSE TLCGet(1))
TraceAccepted == PrintT(<<"HWM", TLCGet(1)>>) /\ TLCGet(1) = Len(Trace)
=============================================================================
