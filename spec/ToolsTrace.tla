----------------------------- MODULE ToolsTrace -----------------------------
(***************************************************************************)
(* C20 conformance: runs of the real CLI.                                    *)
(*   MakeIso  the produced bytes were compared (outside VarFields) with the  *)
(*            image the library serves for the same directory and mode       *)
(*   Decrypt  the produced bytes are classified segment by segment against   *)
(*            the stored image (raw / zero / decrypted under the key); what  *)
(*            each segment must be is EncryptedIso!SegClass with header      *)
(*            clearing on, and - for 3k3y - the watermark/key area masked    *)
(*            (so that the output is served back without a second            *)
(*            transformation)                                                *)
(*   Race     n runs of make-iso started together with one absent target     *)
(***************************************************************************)
EXTENDS Tools, EncryptedIso, Json, TLC

Trace == ndJsonDeserialize("trace.ndjson")
VARIABLE l
IsEvent(e) == l <= Len(Trace) /\ Trace[l].ev = e /\ l' = l + 1
TraceInit == TLCSet(1, 0) /\ l = 1

TraceMakeIso ==
  /\ IsEvent("MakeIso")
  /\ RunOK(Trace[l].inputOk, Trace[l].target, Trace[l].obs)

DecryptCfg(e) == [regions |-> e.regions, clear |-> TRUE, masked |-> e.tool = "3k3y", decrypting |-> TRUE, key |-> "k"]
TraceDecrypt ==
  /\ IsEvent("Decrypt")
  /\ LET e == Trace[l]
         content == e.gotLen = e.rawLen /\ SegsOK(DecryptCfg(e), e.segs)
         o == [e.obs EXCEPT !.imageAtTarget = @ /\ content, !.stdoutIsImage = @ /\ content]
     IN RunOK(e.inputOk, e.target, o)

(* several runs started together with the same, not yet existing target: a target is written by the one run that created *)
(* it - the others find it existing and refuse (none of them writes into a file another run has just created)              *)
TraceRace ==
  /\ IsEvent("Race")
  /\ LET e == Trace[l] IN e.succeeded = 1 /\ e.crashed = 0 /\ e.targetIsImage

TraceNext == TraceMakeIso \/ TraceDecrypt \/ TraceRace
HwmConstraint == TLCSet(1, IF TLCGet(1) < l - 1 THEN l - 1 ELSE TLCGet(1))
TraceAccepted == PrintT(<<"HWM", TLCGet(1)>>) /\ TLCGet(1) = Len(Trace)
=============================================================================
