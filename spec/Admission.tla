------------------------------ MODULE Admission ------------------------------
(***************************************************************************)
(* Admission control of the server's listener chain                          *)
(* (cmd/ps3netsrv-go/server.go: netutil.LimitListener wrapped first,         *)
(* iprange.FilterListener outermost, then server.Serve):                     *)
(*                                                                           *)
(*   Connect(c)   the client's TCP connection is established by the kernel    *)
(*                and waits in the accept queue (FIFO)                        *)
(*   Acquire(c)   the accept loop takes a limiter slot (blocks while N are    *)
(*                taken) and accepts the head of the queue                    *)
(*   Reject(c)    peer address outside the whitelist: closed at once, slot    *)
(*                released, no byte ever sent                                 *)
(*   Admit(c)     otherwise handed to the server: served                      *)
(*   Hangup(c)    the client closes; a served connection is torn down and     *)
(*                its slot released; a queued one is accepted later and ends  *)
(*                at its first read                                           *)
(* Limit = 0 means no limit.  Allowed = the clients whose address the         *)
(* whitelist denotes (all of them when there is no whitelist).               *)
(***************************************************************************)
EXTENDS Integers, Sequences, FiniteSets

CONSTANTS Clients, Limit, Allowed

VARIABLES st,      \* client -> "idle" | "queued" | "accepted" | "serving" | "rejected" | "gone"
          queue,   \* kernel accept queue
          sem,     \* limiter slots in use
          dead     \* queued clients that already hung up

vars == <<st, queue, sem, dead>>

Init == st = [c \in Clients |-> "idle"] /\ queue = << >> /\ sem = 0 /\ dead = {}

FullP(limit) == limit > 0 /\ sem >= limit
Full == FullP(Limit)

Connect(c) ==
  /\ st[c] = "idle"
  /\ st' = [st EXCEPT ![c] = "queued"] /\ queue' = Append(queue, c)
  /\ UNCHANGED <<sem, dead>>

AcquireP(limit) ==
  /\ queue # << >> /\ ~FullP(limit)
  /\ ~\E c \in Clients : st[c] = "accepted"      \* one accept loop
  /\ LET c == Head(queue) IN st' = [st EXCEPT ![c] = "accepted"]
  /\ queue' = Tail(queue) /\ sem' = sem + 1
  /\ UNCHANGED dead

Acquire == AcquireP(Limit)

RejectP(c, allowed) ==
  /\ st[c] = "accepted" /\ c \notin allowed
  /\ st' = [st EXCEPT ![c] = "rejected"] /\ sem' = sem - 1
  /\ UNCHANGED <<queue, dead>>

Reject(c) == RejectP(c, Allowed)

AdmitP(c, allowed) ==
  /\ st[c] = "accepted" /\ c \in allowed
  /\ st' = [st EXCEPT ![c] = IF c \in dead THEN "gone" ELSE "serving"]
  /\ sem' = IF c \in dead THEN sem - 1 ELSE sem       \* a dead peer is torn down at its first read
  /\ UNCHANGED <<queue, dead>>

Admit(c) == AdmitP(c, Allowed)

Hangup(c) ==
  \/ /\ st[c] = "serving"
     /\ st' = [st EXCEPT ![c] = "gone"] /\ sem' = sem - 1 /\ UNCHANGED <<queue, dead>>
  \/ /\ st[c] = "queued"
     /\ dead' = dead \cup {c} /\ UNCHANGED <<st, queue, sem>>
  \/ /\ st[c] = "rejected"
     /\ st' = [st EXCEPT ![c] = "gone"] /\ UNCHANGED <<queue, sem, dead>>

Internal == Acquire \/ \E c \in Clients : Reject(c) \/ Admit(c)
Next == Internal \/ \E c \in Clients : Connect(c) \/ Hangup(c)

Spec == Init /\ [][Next]_vars /\ WF_vars(Internal)

Serving == { c \in Clients : st[c] = "serving" }
InFlight == { c \in Clients : st[c] = "accepted" }

TypeOK == st \in [Clients -> {"idle", "queued", "accepted", "serving", "rejected", "gone"}] /\ sem \in 0..Cardinality(Clients)
(* at most N connections are served at any moment *)
AtMostN == Limit > 0 => Cardinality(Serving) <= Limit
(* every slot belongs to a served or in-flight connection: capacity is never lost *)
SlotsAccounted == sem = Cardinality(Serving) + Cardinality(InFlight)
(* nobody outside the whitelist is ever served *)
OnlyAllowedServed == Serving \subseteq Allowed
(* liveness: a live allowed client waiting in the queue is eventually served  *)
(* once slots are free again (here: whenever the server is not full forever)  *)
CapacityRecovers == \A c \in Allowed : (st[c] = "queued" /\ c \notin dead) ~> (st[c] # "queued" \/ Full)
(* quiescence: no internal step is enabled *)
Quiescent == ~ENABLED Internal
=============================================================================
