------------------------------- MODULE Proto -------------------------------
(***************************************************************************)
(* The ps3netsrv wire contract (pkg/proto/types.go, and the C original).    *)
(* Pure constants.  The conformance harness does not contain a copy of      *)
(* these tables: TLC exports them as JSON (ExportProto.cfg) and the         *)
(* harness's encoder/decoder is a generic interpreter of that JSON.         *)
(*                                                                         *)
(* A request is a 16-byte command: 2-byte big-endian opcode + 14 bytes of   *)
(* data.  "tail" lists the big-endian fields inside those 14 bytes as       *)
(* <<name, offset-in-data, width>>.  "follow" says what follows the         *)
(* command on the wire: nothing, a path whose length is tail field "len",   *)
(* or a payload whose length is tail field "len".                          *)
(*                                                                         *)
(* A response is a fixed sequence of big-endian fields <<name, width,       *)
(* signed>> followed by an optional variable part:                         *)
(*   "name"    : <namelen> raw bytes                                        *)
(*   "data"    : <n> raw bytes (only when n > 0)                            *)
(*   "entries" : <count> fixed entries of layout DirEntryLayout             *)
(*   "raw"     : no fixed fields at all, only raw bytes (critical reads)    *)
(***************************************************************************)
EXTENDS Integers, Sequences

OpBase == 4644  \* 0x1224

Ops == <<
  [name |-> "OPEN_FILE", kind |-> "Open", code |-> OpBase + 0,  tail |-> << <<"len", 0, 2>> >>, follow |-> "path",
   resp |-> << <<"size", 8, TRUE>>, <<"mtime", 8, FALSE>> >>, var |-> "none", block |-> 0],
  [name |-> "READ_FILE_CRITICAL", kind |-> "Raw", code |-> OpBase + 1,  tail |-> << <<"limit", 2, 4>>, <<"off", 6, 8>> >>, follow |-> "none",
   resp |-> << >>, var |-> "raw", block |-> 0],
  [name |-> "READ_CD_2048", kind |-> "Raw", code |-> OpBase + 2,  tail |-> << <<"start", 2, 4>>, <<"count", 6, 4>> >>, follow |-> "none",
   resp |-> << >>, var |-> "raw", block |-> 2048],
  [name |-> "READ_FILE", kind |-> "Read", code |-> OpBase + 3,  tail |-> << <<"limit", 2, 4>>, <<"off", 6, 8>> >>, follow |-> "none",
   resp |-> << <<"n", 4, TRUE>> >>, var |-> "data", block |-> 0],
  [name |-> "CREATE_FILE", kind |-> "Res4", code |-> OpBase + 4,  tail |-> << <<"len", 0, 2>> >>, follow |-> "path",
   resp |-> << <<"v", 4, TRUE>> >>, var |-> "none", block |-> 0],
  [name |-> "WRITE_FILE", kind |-> "Res4", code |-> OpBase + 5,  tail |-> << <<"len", 2, 4>> >>, follow |-> "payload",
   resp |-> << <<"v", 4, TRUE>> >>, var |-> "none", block |-> 0],
  [name |-> "OPEN_DIR", kind |-> "Res4", code |-> OpBase + 6,  tail |-> << <<"len", 0, 2>> >>, follow |-> "path",
   resp |-> << <<"v", 4, TRUE>> >>, var |-> "none", block |-> 0],
  [name |-> "READ_DIR_ENTRY", kind |-> "Entry", code |-> OpBase + 7,  tail |-> << >>, follow |-> "none",
   resp |-> << <<"size", 8, TRUE>>, <<"namelen", 2, FALSE>>, <<"isdir", 1, FALSE>> >>, var |-> "name", block |-> 0],
  [name |-> "DELETE_FILE", kind |-> "Res4", code |-> OpBase + 8,  tail |-> << <<"len", 0, 2>> >>, follow |-> "path",
   resp |-> << <<"v", 4, TRUE>> >>, var |-> "none", block |-> 0],
  [name |-> "MKDIR", kind |-> "Res4", code |-> OpBase + 9,  tail |-> << <<"len", 0, 2>> >>, follow |-> "path",
   resp |-> << <<"v", 4, TRUE>> >>, var |-> "none", block |-> 0],
  [name |-> "RMDIR", kind |-> "Res4", code |-> OpBase + 10, tail |-> << <<"len", 0, 2>> >>, follow |-> "path",
   resp |-> << <<"v", 4, TRUE>> >>, var |-> "none", block |-> 0],
  [name |-> "READ_DIR_ENTRY_V2", kind |-> "EntryV2", code |-> OpBase + 11, tail |-> << >>, follow |-> "none",
   resp |-> << <<"size", 8, TRUE>>, <<"mtime", 8, FALSE>>, <<"ctime", 8, FALSE>>, <<"atime", 8, FALSE>>,
               <<"namelen", 2, FALSE>>, <<"isdir", 1, FALSE>> >>, var |-> "name", block |-> 0],
  [name |-> "STAT_FILE", kind |-> "Stat", code |-> OpBase + 12, tail |-> << <<"len", 0, 2>> >>, follow |-> "path",
   resp |-> << <<"size", 8, TRUE>>, <<"mtime", 8, FALSE>>, <<"ctime", 8, FALSE>>, <<"atime", 8, FALSE>>,
               <<"isdir", 1, FALSE>> >>, var |-> "none", block |-> 0],
  [name |-> "GET_DIR_SIZE", kind |-> "Res8", code |-> OpBase + 13, tail |-> << <<"len", 0, 2>> >>, follow |-> "path",
   resp |-> << <<"size", 8, TRUE>> >>, var |-> "none", block |-> 0],
  [name |-> "READ_DIR", kind |-> "ReadDir", code |-> OpBase + 14, tail |-> << >>, follow |-> "none",
   resp |-> << <<"count", 8, TRUE>> >>, var |-> "entries", block |-> 0]
>>

DirEntryLayout == << <<"size", 8, TRUE>>, <<"mtime", 8, FALSE>>, <<"isdir", 1, FALSE>>, <<"name", 512, FALSE>> >>

OpNames == { Ops[i].name : i \in 1..Len(Ops) }
PathOps == { Ops[i].name : i \in { j \in 1..Len(Ops) : Ops[j].follow = "path" } }
OpByName(n) == Ops[CHOOSE i \in 1..Len(Ops) : Ops[i].name = n]

CommandLen == 16
MaxDirEntryName == 512
CDUserOffset == 24      \* psxPrefixSize
CDUserBytes == 2048
DefaultCDSector == 2352
CDSectorSizes == <<2048, 2328, 2336, 2340, 2352, 2368, 2448>>
CDDetectMin == 2097152      \* 0x200000
CDDetectMax == 889192448    \* 0x35000000

RECURSIVE SumWidths(_)
SumWidths(l) == IF l = << >> THEN 0 ELSE Head(l)[2] + SumWidths(Tail(l))
FixedRespLen(opname) == SumWidths(OpByName(opname).resp)
DirEntryLen == SumWidths(DirEntryLayout)

ProtoTable == [ops |-> Ops, direntry |-> DirEntryLayout, commandLen |-> CommandLen]
=============================================================================
