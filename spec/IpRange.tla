------------------------------- MODULE IpRange -------------------------------
(***************************************************************************)
(* What an IP range specification denotes (pkg/iprange, README "Exposing    *)
(* tips", --client-whitelist help text).                                     *)
(*                                                                           *)
(* Addresses are sequences of bytes: V4Len bytes for IPv4, V6Len for IPv6    *)
(* (4 and 16 in reality; smaller in the model-checking instance).  An IPv4   *)
(* address and its IPv4-mapped IPv6 form are the same address: everything is *)
(* compared in the mapped V6Len-byte form.                                   *)
(*                                                                           *)
(* spec: [kind, fam, a, b, p, mask, okA, okB, okMask]                        *)
(*   "single"  a                                                             *)
(*   "range"   a - b           inclusive; same family; a <= b                *)
(*   "cidr"    a / p           0 <= p <= width; host bits of a are ignored   *)
(*   "mask"    a / mask        IPv4 only; mask contiguous                    *)
(* okA / okB / okMask: the text of that part was a well-formed address.      *)
(* Blocks (cidr / mask) exclude their network and broadcast address unless   *)
(* the block has only one or two addresses.                                  *)
(***************************************************************************)
EXTENDS Integers, Sequences

CONSTANTS V4Len, V6Len

Width(fam) == 8 * (IF fam = 4 THEN V4Len ELSE V6Len)

(* IPv4-mapped form: zeros, two 0xFF bytes, then the IPv4 bytes              *)
To16(ip) ==
  IF Len(ip) = V6Len THEN ip
  ELSE [i \in 1..V6Len |-> IF i <= V6Len - V4Len - 2 THEN 0
                           ELSE IF i <= V6Len - V4Len THEN 255
                           ELSE ip[i - (V6Len - V4Len)]]

RECURSIVE LexLe(_, _)
LexLe(x, y) == IF x = << >> THEN TRUE
               ELSE IF Head(x) < Head(y) THEN TRUE
               ELSE IF Head(x) > Head(y) THEN FALSE
               ELSE LexLe(Tail(x), Tail(y))

Pow2(n) == IF n <= 0 THEN 1 ELSE 2 ^ n
(* number of prefix bits that fall into byte i (1-based) *)
BitsIn(p, i) == IF p >= 8 * i THEN 8 ELSE IF p <= 8 * (i - 1) THEN 0 ELSE p - 8 * (i - 1)
NetByte(x, k) == x - (x % Pow2(8 - k))               \* keep the k leading bits of a byte
BcastByte(x, k) == NetByte(x, k) + Pow2(8 - k) - 1   \* ... and set the others
Network(a, p) == [i \in DOMAIN a |-> NetByte(a[i], BitsIn(p, i))]
Broadcast(a, p) == [i \in DOMAIN a |-> BcastByte(a[i], BitsIn(p, i))]

(* prefix length of a contiguous mask, -1 if the mask has a hole *)
MaskByteBits(m) == CASE m = 255 -> 8 [] m = 254 -> 7 [] m = 252 -> 6 [] m = 248 -> 5 [] m = 240 -> 4
                     [] m = 224 -> 3 [] m = 192 -> 2 [] m = 128 -> 1 [] m = 0 -> 0 [] OTHER -> -1
RECURSIVE MaskPrefixFrom(_, _)
MaskPrefixFrom(m, open) ==     \* open: no zero bit seen so far
  IF m = << >> THEN 0
  ELSE LET k == MaskByteBits(Head(m)) IN
       IF k < 0 \/ (~open /\ k > 0) THEN -1000
       ELSE k + MaskPrefixFrom(Tail(m), open /\ k = 8)
MaskPrefix(m) == LET v == MaskPrefixFrom(m, TRUE) IN IF v < 0 THEN -1 ELSE v

PrefixOf(s) == IF s.kind = "mask" THEN MaskPrefix(s.mask) ELSE s.p

Accepts(s) ==
  CASE s.kind = "single" -> s.okA
    [] s.kind = "range"  -> s.okA /\ s.okB /\ Len(s.a) = Len(s.b) /\ LexLe(To16(s.a), To16(s.b))
    [] s.kind = "cidr"   -> s.okA /\ s.p >= 0 /\ s.p <= Width(s.fam)
    [] s.kind = "mask"   -> s.okA /\ s.okMask /\ s.fam = 4 /\ Len(s.mask) = V4Len /\ MaskPrefix(s.mask) >= 0
    [] OTHER -> FALSE

Denotes(s, ip) ==
  LET x == To16(ip) IN
  CASE s.kind = "single" -> x = To16(s.a)
    [] s.kind = "range"  -> LexLe(To16(s.a), x) /\ LexLe(x, To16(s.b))
    [] s.kind \in {"cidr", "mask"} ->
         LET p == PrefixOf(s)
             net == To16(Network(s.a, p))
             bc == To16(Broadcast(s.a, p))
         IN /\ LexLe(net, x) /\ LexLe(x, bc)
            /\ (p < Width(s.fam) - 1 => (x # net /\ x # bc))
    [] OTHER -> FALSE
=============================================================================
