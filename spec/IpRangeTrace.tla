---------------------------- MODULE IpRangeTrace ----------------------------
(***************************************************************************)
(* C14 conformance: each line is one range specification as the driver built *)
(* it (structured; the driver renders the text itself), whether              *)
(* iprange.ParseIPRange accepted the text, and Contains(ip) for each probe.  *)
(* odd = the text is outside the classes the documentation names (accept or  *)
(* reject is then unspecified; if accepted nothing is demanded of it).       *)
(***************************************************************************)
EXTENDS IpRange, Json, TLC

Trace == ndJsonDeserialize("trace.ndjson")
VARIABLE l
IsEvent(e) == l <= Len(Trace) /\ Trace[l].ev = e /\ l' = l + 1
TraceInit == TLCSet(1, 0) /\ l = 1

TraceRange ==
  /\ IsEvent("Range")
  /\ LET e == Trace[l] IN
       \/ e.odd
       \/ /\ e.accepted = Accepts(e.spec)
          /\ e.accepted => \A i \in DOMAIN e.probes : e.probes[i].isin = Denotes(e.spec, e.probes[i].ip)

TraceNext == TraceRange
HwmConstraint == TLCSet(1, IF TLCGet(1) < l - 1 THEN l - 1 ELSE TLCGet(1))
TraceAccepted == PrintT(<<"HWM", TLCGet(1)>>) /\ TLCGet(1) = Len(Trace)
=============================================================================
