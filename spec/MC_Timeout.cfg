CONSTANTS Conns = {1, 2} T = 3 Slack = 1 MaxTime = 9
SPECIFICATION Spec
INVARIANTS NoEarlyCut CutInTime
PROPERTIES IdleCut StalledCut
CHECK_DEADLOCK FALSE
