\* vacuity guard: claims no case has a record pushed to the next sector; has to fail
CONSTANTS
  Variant = "good"
  MaxFiles = 1
  SizeSet = {1, 2, 7}
  Wide <- WideQuick
INIT Init
NEXT Next
INVARIANT NeverPush
CHECK_DEADLOCK FALSE
