CONSTANTS MaxSector = 6 MaxLen = 3
INIT Init
NEXT Next
INVARIANTS Partition HeaderPlain
CHECK_DEADLOCK FALSE
