CONSTANTS MaxLen = 4
INIT GenInit
NEXT Next
CHECK_DEADLOCK FALSE
