CONSTANTS V4Len = 1 V6Len = 4
INIT Init
NEXT Next
INVARIANTS Agrees
CHECK_DEADLOCK FALSE
