-------------------------------- MODULE Pos --------------------------------
(***************************************************************************)
(* 64-bit byte quantities for a 32-bit model checker.                      *)
(* TLC integers are Java ints and its Json module wraps larger numbers      *)
(* silently, so every byte offset / size that may exceed 2^31-1 is the      *)
(* pair <<s, r>> = s * 2048 + r with 0 <= r < 2048 (s may be negative:      *)
(* -1 is <<-1, 2047>>).  The harness clamps |s| below 2^31 - 2^21.          *)
(***************************************************************************)
EXTENDS Integers, Sequences

SECT == 2048
IsPos(p) == /\ Len(p) = 2 /\ p[1] \in Int /\ p[2] \in 0..(SECT - 1)
P(n) == <<n \div SECT, n % SECT>>            \* small n only (|n| < 2^31)
PZero == <<0, 0>>
PNeg1 == <<-1, SECT - 1>>
PAdd(a, b) == LET r == a[2] + b[2] IN <<a[1] + b[1] + (r \div SECT), r % SECT>>
PSub(a, b) == LET r == a[2] - b[2] IN <<a[1] - b[1] + (r \div SECT), r % SECT>>
PLt(a, b) == a[1] < b[1] \/ (a[1] = b[1] /\ a[2] < b[2])
PLe(a, b) == a = b \/ PLt(a, b)
PMin(a, b) == IF PLe(a, b) THEN a ELSE b
PMax(a, b) == IF PLe(a, b) THEN b ELSE a
PIsNeg(a) == a[1] < 0
\* a * k for a small non-negative integer k (k * 2047 must fit an int)
PMulInt(a, k) == LET r == a[2] * k IN <<a[1] * k + (r \div SECT), r % SECT>>
\* ss * k bytes for 0 <= ss < 4096 and 0 <= k < 2^29 (sector size times sector number)
PMulSmall(ss, k) == PAdd(<<ss * (k \div SECT), 0>>, P(ss * (k % SECT)))
\* convert to an ordinary integer; only legal when the value fits (|s| < 2^20)
PInt(a) == a[1] * SECT + a[2]
PFits(a) == a[1] > -1048576 /\ a[1] < 1048576
\* number of whole sectors needed to hold a bytes (ceil)
PSectors(a) == IF a[2] = 0 THEN a[1] ELSE a[1] + 1
=============================================================================
