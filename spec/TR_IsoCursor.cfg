CONSTANT Variant = "good"
CONSTANT Mode = "both"
INIT TraceInit
NEXT TraceNext
CONSTRAINT HwmConstraint
POSTCONDITION TraceAccepted
CHECK_DEADLOCK FALSE
