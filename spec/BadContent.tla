----------------------------- MODULE BadContent -----------------------------
(***************************************************************************)
(* C04: the structured part of the hostile space, as finite case tables.     *)
(* TLC enumerates them (<<"BAD", json>>); the harness turns each descriptor   *)
(* into bytes on disk / on the wire.  For every case the only thing demanded  *)
(* is what the specification of the server demands anyway: a well-formed      *)
(* reply or the end of that connection - and a process that is still alive    *)
(* (Probe), resp. an error exit of the CLI.                                   *)
(***************************************************************************)
EXTENDS Integers, TLC, Json

(* PARAM.SFO of a directory opened in PS3 mode *)
SfoCases ==
     { [what |-> "sfo", magic |-> m, entries |-> n, keyoff |-> k, datalen |-> d, titlelen |-> t]
       : m \in {"ok", "bad"}, n \in {"0", "1", "3"}, k \in {"ok", "pastEOF"}, d \in {"ok", "0", "1", "3", "4", "u32max"}, t \in {0, 1, 3, 4, 9, 40} }
\cup { [what |-> "sfo", magic |-> "ok", entries |-> n, keyoff |-> "ok", datalen |-> "ok", titlelen |-> 9] : n \in {"1000", "70000", "u32max"} }
\cup { [what |-> "sfo-short", len |-> n] : n \in {0, 1, 4, 19, 20, 21, 35} }

(* region table of an encrypted image that has its key beside it *)
RegionCases ==
  { [what |-> "regions", count |-> c, shape |-> s] : c \in {"0", "1", "2", "255", "256", "70000", "u32max"}, s \in {"ok", "unordered", "endBeforeStart", "startNotZero", "beyondFile"} }
\cup { [what |-> "regions-short", len |-> n] : n \in {0, 1, 7, 8, 9, 15, 16, 23} }

KeyCases == { [what |-> "key", content |-> c] : c \in {"empty", "short", "odd", "nonhex", "long", "binary"} }

ThreeK3yCases == { [what |-> "3k3y", len |-> n, wm |-> w] : n \in {3951, 3952, 3953, 3968, 3984, 4207, 4208, 4209}, w \in {"enc", "dec"} }

NameCases == { [what |-> "names", kind |-> k] : k \in {"len255", "len200", "nonutf8", "collide", "many1000", "deep30", "controlchars", "links"} }

AllCases == SfoCases \cup RegionCases \cup KeyCases \cup ThreeK3yCases \cup NameCases

VARIABLE c
Init == c \in AllCases
Next == UNCHANGED c
Emit == PrintT(<<"BAD", ToJson(c)>>)
GenInit == c \in AllCases /\ Emit
=============================================================================
