--------------------------- MODULE AdmissionTrace ---------------------------
(***************************************************************************)
(* C15 conformance: a sequential driver connects clients from chosen source  *)
(* addresses to the real server (real binary with --max-clients /            *)
(* --client-whitelist), sends one request, and after a settle time observes  *)
(* what each socket got: a response (served), a close without any byte       *)
(* (closed), or nothing (pending).  The server's internal steps (acquire,    *)
(* reject, admit) are not logged: they are composed as silent steps, and     *)
(* every observation is taken at quiescence - it must be explained by the    *)
(* state in which no internal step is possible any more.                     *)
(*   Config  limit, whitelist (a C14 range specification or none)            *)
(*   Connect c, ip                                                           *)
(*   Observe c, outcome                                                      *)
(*   Close   c                                                               *)
(***************************************************************************)
EXTENDS Admission, Json, TLC

VARIABLES l, limit, allowed, wl
tvars == <<vars, l, limit, allowed, wl>>

Ip == INSTANCE IpRange WITH V4Len <- 4, V6Len <- 16

Trace == ndJsonDeserialize("trace.ndjson")
IsEvent(e) == l <= Len(Trace) /\ Trace[l].ev = e /\ l' = l + 1

TraceInit == TLCSet(1, 0) /\ Init /\ l = 1 /\ limit = 0 /\ allowed = {} /\ wl = [kind |-> "none"]

TraceConfig ==
  /\ IsEvent("Config")
  /\ st' = [c \in Clients |-> "idle"] /\ queue' = << >> /\ sem' = 0 /\ dead' = {}
  /\ limit' = Trace[l].limit /\ allowed' = {} /\ wl' = Trace[l].whitelist

IsAllowed(ip) == wl.kind = "none" \/ Ip!Denotes(wl, ip)

TraceConnect ==
  /\ IsEvent("Connect")
  /\ LET c == Trace[l].c IN
       /\ Connect(c)
       /\ allowed' = IF IsAllowed(Trace[l].ip) THEN allowed \cup {c} ELSE allowed
  /\ UNCHANGED <<limit, wl>>

TraceClose ==
  /\ IsEvent("Close")
  /\ Hangup(Trace[l].c)
  /\ UNCHANGED <<limit, allowed, wl>>

NoInternal ==
  /\ ~\E c \in Clients : st[c] = "accepted"
  /\ ~(queue # << >> /\ ~FullP(limit))

TraceObserve ==
  /\ IsEvent("Observe")
  /\ NoInternal
  /\ LET c == Trace[l].c
         o == Trace[l].outcome
     IN CASE o = "served"  -> st[c] = "serving"
          [] o = "closed"  -> st[c] = "rejected"
          [] o = "pending" -> st[c] = "queued"
          [] OTHER -> FALSE
  /\ UNCHANGED <<vars, limit, allowed, wl>>

TraceInternal ==
  /\ (AcquireP(limit) \/ \E c \in Clients : RejectP(c, allowed) \/ AdmitP(c, allowed))
  /\ UNCHANGED <<l, limit, allowed, wl>>

TraceNext == TraceConfig \/ TraceConnect \/ TraceClose \/ TraceObserve \/ TraceInternal

(* the properties of the specification, evaluated in every state of the explained trace *)
TraceAtMostN == limit > 0 => Cardinality(Serving) <= limit
TraceSlots == sem = Cardinality(Serving) + Cardinality(InFlight)

HwmConstraint == TLCSet(1, IF TLCGet(1) < l - 1 THEN l - 1 ELSE TLCGet(1))
TraceAccepted == PrintT(<<"HWM", TLCGet(1)>>) /\ TLCGet(1) = Len(Trace)
=============================================================================
