\* vacuity guard: claims no case has a multi-extent file; has to fail
CONSTANTS
  Variant = "good"
  MaxFiles = 1
  SizeSet = {1, 2, 7}
  Wide <- WideQuick
INIT Init
NEXT Next
INVARIANT NeverMulti
CHECK_DEADLOCK FALSE
