\* vacuity guard: the "dotdot" scheme is wrong and TLC has to say so
CONSTANTS
  Variant = "dotdot"
  MaxFiles = 1
  SizeSet = {1, 2, 7}
  Wide <- WideQuick
INIT Init
NEXT Next
INVARIANT Structure
INVARIANT Content
CHECK_DEADLOCK FALSE
