\* session generator: one CASE line per transition (abstract state x request)
CONSTANTS
  Conns = {1}
  AllowWrite = TRUE
  MaxReqs = 4
  InitFs <- MCInitFs
  Views <- MCViews
  ReqAlphabet <- MCReqs
INIT GenInit
NEXT GenNext
VIEW StateView
CHECK_DEADLOCK FALSE
