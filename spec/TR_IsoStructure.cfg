CONSTANT Variant = "good"
CONSTANT Mode = "structure"
INIT TraceInit
NEXT TraceNext
CONSTRAINT HwmConstraint
POSTCONDITION TraceAccepted
CHECK_DEADLOCK FALSE
