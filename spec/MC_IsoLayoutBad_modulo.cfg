\* vacuity guard: the "modulo" scheme is wrong and TLC has to say so
CONSTANTS
  Variant = "modulo"
  MaxFiles = 1
  SizeSet = {1, 2, 7}
  Wide <- WideQuick
INIT Init
NEXT Next
INVARIANT Structure
INVARIANT Content
CHECK_DEADLOCK FALSE
