INIT Init
NEXT Next
INVARIANTS Sane
CHECK_DEADLOCK FALSE
