---------------------------- MODULE TimeoutTrace ----------------------------
(***************************************************************************)
(* C16 against the real binary (--read-timeout T): what a client can see.    *)
(* Times are client-side monotonic milliseconds.  The server arms its        *)
(* deadline somewhere between the moment the client sent a complete request  *)
(* (or started to connect) and the moment the response (or the connect)      *)
(* returned: armLo <= armed <= armHi.                                        *)
(*   Config  T (0 = no timeout)                                              *)
(*   Connect c, t0, t1                                                        *)
(*   Request c, ts, tr        a complete request was answered                *)
(*   Partial c, t             bytes of an incomplete request were sent       *)
(*   Cut     c, t             the client saw the server close the connection *)
(*   NotCut  c, t             the client waited until t and nothing happened *)
(*   Bye     c                the client closed                              *)
(***************************************************************************)
EXTENDS Integers, Sequences, Json, TLC

Trace == ndJsonDeserialize("trace.ndjson")

VARIABLES l, T, open, armLo, armHi
tvars == <<l, T, open, armLo, armHi>>

Tol == 60          \* ms: timer granularity, scheduling
CutSlack == 1500   \* ms the server and the client may need to notice the cut on a loaded machine

IsEvent(e) == l <= Len(Trace) /\ Trace[l].ev = e /\ l' = l + 1
Ids == 1..64
TraceInit == TLCSet(1, 0) /\ l = 1 /\ T = 0 /\ open = [c \in Ids |-> FALSE] /\ armLo = [c \in Ids |-> 0] /\ armHi = [c \in Ids |-> 0]

TraceConfig ==
  /\ IsEvent("Config")
  /\ T' = Trace[l].T /\ open' = [c \in Ids |-> FALSE] /\ armLo' = [c \in Ids |-> 0] /\ armHi' = [c \in Ids |-> 0]

TraceConnect ==
  /\ IsEvent("Connect")
  /\ LET e == Trace[l] IN
       /\ open' = [open EXCEPT ![e.c] = TRUE]
       /\ armLo' = [armLo EXCEPT ![e.c] = e.t0] /\ armHi' = [armHi EXCEPT ![e.c] = e.t1 + Tol]
  /\ UNCHANGED T

(* an answered request: legal at any time (the server may be late in cutting);  *)
(* what matters is that a request sent well inside the window is never refused: *)
(* that case shows up as a Cut event that NoEarlyCut rejects                    *)
TraceRequest ==
  /\ IsEvent("Request")
  /\ LET e == Trace[l] IN
       /\ open[e.c]
       /\ armLo' = [armLo EXCEPT ![e.c] = e.ts] /\ armHi' = [armHi EXCEPT ![e.c] = e.tr]
  /\ UNCHANGED <<T, open>>

TracePartial == IsEvent("Partial") /\ open[Trace[l].c] /\ UNCHANGED <<T, open, armLo, armHi>>

(* NoEarlyCut and IdleCut on the clock *)
TraceCut ==
  /\ IsEvent("Cut")
  /\ LET e == Trace[l] IN
       /\ open[e.c] /\ T > 0
       /\ e.t >= armLo[e.c] + T - Tol
       /\ e.t <= armHi[e.c] + T + CutSlack
       /\ open' = [open EXCEPT ![e.c] = FALSE]
  /\ UNCHANGED <<T, armLo, armHi>>

(* waited without being cut: only legal while the deadline cannot have passed yet, or with no timeout at all *)
TraceNotCut ==
  /\ IsEvent("NotCut")
  /\ LET e == Trace[l] IN open[e.c] /\ (T = 0 \/ e.t < armHi[e.c] + T + Tol)
  /\ UNCHANGED <<T, open, armLo, armHi>>

TraceBye == IsEvent("Bye") /\ open' = [open EXCEPT ![Trace[l].c] = FALSE] /\ UNCHANGED <<T, armLo, armHi>>

TraceNext == TraceConfig \/ TraceConnect \/ TraceRequest \/ TracePartial \/ TraceCut \/ TraceNotCut \/ TraceBye
HwmConstraint == TLCSet(1, IF TLCGet(1) < l - 1 THEN l - 1 ELSE TLCGet(1))
TraceAccepted == PrintT(<<"HWM", TLCGet(1)>>) /\ TLCGet(1) = Len(Trace)
=============================================================================
