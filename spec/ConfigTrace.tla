----------------------------- MODULE ConfigTrace -----------------------------
(* C19 conformance: one line per start of the real binary: the case (as TLC   *)
(* generated it) and what the harness observed.                               *)
EXTENDS Config, Json, TLC, Sequences
Trace == ndJsonDeserialize("trace.ndjson")
VARIABLE l
IsEvent(e) == l <= Len(Trace) /\ Trace[l].ev = e /\ l' = l + 1
TraceInit == TLCSet(1, 0) /\ l = 1
AssignOf(seq) == { <<seq[i].ch, seq[i].v>> : i \in DOMAIN seq }
TraceStart ==
  /\ IsEvent("Start")
  /\ Trace[l].observed \in Effective(AssignOf(Trace[l].assign))
TraceNext == TraceStart
HwmConstraint == TLCSet(1, IF TLCGet(1) < l - 1 THEN l - 1 ELSE TLCGet(1))
TraceAccepted == PrintT(<<"HWM", TLCGet(1)>>) /\ TLCGet(1) = Len(Trace)
=============================================================================
