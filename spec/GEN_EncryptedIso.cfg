CONSTANTS MaxSector = 5 MaxLen = 3
INIT GenInit
NEXT Next
CHECK_DEADLOCK FALSE
