------------------------------ MODULE VirtualIso ------------------------------
(***************************************************************************)
(* What a generated image must be (C07 content, C08 structure), stated over *)
(* a DECODED volume: the harness's fixed-offset reader (isodec, driven by    *)
(* the tables of IsoFormat) turns image bytes into the record `vol`; every   *)
(* judgement is made here.                                                   *)
(*                                                                           *)
(* vol.total            image size (Pos)                                     *)
(* vol.descs            volume descriptors from sector 16 on                 *)
(* vol.hier[h]          per descriptor of type 1 / 2: both path tables, all  *)
(*                      directories (path, extent, records) reachable from   *)
(*                      the root record, all file records with windows of    *)
(*                      their content located in the content sources         *)
(* vol.ps3, systemAreaZero, decodeErrors                                     *)
(*                                                                           *)
(* tree                 the source directory as walked by the harness: path, *)
(*                      kind, size, content id, and string facts about each  *)
(*                      name (upper-cased form, "portable characters only")  *)
(***************************************************************************)
EXTENDS Integers, Sequences, FiniteSets, Pos, IsoFormat

SeqSet(s) == { s[i] : i \in DOMAIN s }
RECURSIVE SumPos(_)
SumPos(s) == IF s = << >> THEN PZero ELSE PAdd(Head(s), SumPos(Tail(s)))   \* sum of a sequence of Pos values

Sectors(bytesPos) == PSectors(bytesPos)          \* number of sectors holding that many bytes
TotalSectors(vol) == vol.total[1]

IsPvd(d) == d.type = 1
IsSvd(d) == d.type = 2
Main(vol) == SelectSeq(vol.descs, LAMBDA d : d.type \in {1, 2})

AllRecords(vol) ==
  UNION { UNION { SeqSet(vol.hier[h].dirs[i].recs) : i \in DOMAIN vol.hier[h].dirs } : h \in DOMAIN vol.hier }
  \cup { Main(vol)[i].rootRecord : i \in DOMAIN Main(vol) }

(* ------------------------------------------------------------ C08 clauses *)
NoDecodeErrors(vol) == vol.decodeErrors = << >>

SizeAgrees(vol) ==
  /\ vol.total[2] = 0
  /\ \A i \in DOMAIN Main(vol) : Main(vol)[i].spaceSizeL = P(TotalSectors(vol))

BothEndianAgree(vol) ==
  /\ \A i \in DOMAIN Main(vol) :
       LET d == Main(vol)[i] IN
       /\ d.spaceSizeL = d.spaceSizeM /\ d.setSizeL = d.setSizeM /\ d.seqNoL = d.seqNoM
       /\ d.blockSizeL = d.blockSizeM /\ d.pathTableSizeL = d.pathTableSizeM
  /\ \A r \in AllRecords(vol) : r.extentL = r.extentM /\ r.dataLenL = r.dataLenM /\ r.volSeqL = r.volSeqM

DescriptorsInPlace(vol) ==
  /\ Len(vol.descs) = 3
  /\ vol.descs[1].type = 1 /\ vol.descs[1].lba = FirstDescriptorLBA /\ vol.descs[1].id = "CD001" /\ vol.descs[1].version = 1
  /\ vol.descs[2].type = 2 /\ vol.descs[2].lba = FirstDescriptorLBA + 1 /\ vol.descs[2].id = "CD001" /\ vol.descs[2].version = 1
  /\ vol.descs[2].escapes = JolietEscape
  /\ vol.descs[3].type = 255 /\ vol.descs[3].lba = FirstDescriptorLBA + 2 /\ vol.descs[3].id = "CD001"
  /\ vol.descs[3].version = 1      \* ECMA-119 8.3.3: readers (libarchive) refuse a set terminator of another version
  /\ \A i \in 1..2 : /\ vol.descs[i].blockSizeL = P(SectorSize) /\ vol.descs[i].setSizeL = P(1)
                     /\ vol.descs[i].seqNoL = P(1) /\ vol.descs[i].fsVersion = 1
                     /\ vol.descs[i].rootRecord.name = "." /\ vol.descs[i].rootRecord.len = 34

RecordLenFor(nameLen) == DirRecordNameOffset + nameLen + (IF nameLen % 2 = 0 THEN 1 ELSE 0)
RecordFitsLengthByte(vol) ==
  \A r \in AllRecords(vol) :
    /\ r.nameLen >= 1
    /\ r.len = RecordLenFor(r.nameLen)      \* the length byte is the real length (no wrap-around past 255)
    /\ r.xattrLen = 0 /\ r.unitSize = 0 /\ r.gap = 0 /\ r.volSeqL = P(1)

NoStraddle(vol) ==
  \A h \in DOMAIN vol.hier : \A i \in DOMAIN vol.hier[h].dirs : \A r \in SeqSet(vol.hier[h].dirs[i].recs) : ~r.straddles

DirAt(hr, path) == CHOOSE d \in SeqSet(hr.dirs) : d.path = path
HasDir(hr, path) == \E d \in SeqSet(hr.dirs) : d.path = path
ParentPath(p) == IF p = << >> THEN << >> ELSE SubSeq(p, 1, Len(p) - 1)

(* (names that collide after mapping give several directories the same path  *)
(* in one hierarchy: links are therefore matched existentially)               *)
DotDotLinks(vol) ==
  \A h \in DOMAIN vol.hier :
    LET hr == vol.hier[h] IN
    \A d \in SeqSet(hr.dirs) :
      /\ Len(d.recs) >= 2
      /\ d.len[2] = 0 /\ PLt(PZero, d.len)
      /\ d.recs[1].name = "."  /\ d.recs[1].flags = FlagDirectory /\ d.recs[1].extentL = d.lba /\ d.recs[1].dataLenL = d.len
      /\ d.recs[1].off = 0
      /\ d.recs[2].name = ".." /\ d.recs[2].flags = FlagDirectory
      /\ \E par \in SeqSet(hr.dirs) :
           /\ par.path = ParentPath(d.path) /\ d.recs[2].extentL = par.lba /\ d.recs[2].dataLenL = par.len
           /\ (d.path # << >> => \E r \in SeqSet(par.recs) : r.extentL = d.lba /\ r.name = d.path[Len(d.path)])
      /\ \A i \in 3..Len(d.recs) : d.recs[i].name \notin {".", ".."}

ChildLinks(vol) ==
  \A h \in DOMAIN vol.hier :
    LET hr == vol.hier[h] IN
    \A d \in SeqSet(hr.dirs) : \A r \in SeqSet(d.recs) :
      (r.flags = FlagDirectory /\ r.name \notin {".", ".."}) =>
        \E c \in SeqSet(hr.dirs) : c.path = Append(d.path, r.name) /\ c.lba = r.extentL /\ c.len = r.dataLenL

RootAgrees(vol) ==
  \A h \in DOMAIN vol.hier :
    LET hr == vol.hier[h]
        d == Main(vol)[h]
    IN /\ HasDir(hr, << >>)
       /\ d.rootRecord.extentL = DirAt(hr, << >>).lba /\ d.rootRecord.dataLenL = DirAt(hr, << >>).len
       /\ d.rootRecord.flags = FlagDirectory

PathRecLen(r) == PathRecordNameOffset + r.nameLen + (r.nameLen % 2)
PathTablesEqualAndComplete(vol) ==
  \A h \in DOMAIN vol.hier :
    LET hr == vol.hier[h]
        L == hr.lTable
        M == hr.mTable
        strip(r) == [nameLen |-> r.nameLen, xattrLen |-> r.xattrLen, extent |-> r.extent, parent |-> r.parent, name |-> r.name]
    IN /\ Len(L) = Len(M) /\ \A i \in DOMAIN L : strip(L[i]) = strip(M[i])       \* L and M tables say the same
       /\ Len(L) = Len(hr.dirs)                                                   \* complete ...
       /\ { L[i].extent : i \in DOMAIN L } = { d.lba : d \in SeqSet(hr.dirs) }    \* ... and each directory once
       /\ Len(L) >= 1 /\ L[1].name = "." /\ L[1].parent = P(1) /\ L[1].extent = DirAt(hr, << >>).lba
       /\ \A i \in 2..Len(L) :
            \E d \in SeqSet(hr.dirs) :
              /\ d.path # << >> /\ d.lba = L[i].extent /\ L[i].name = d.path[Len(d.path)]
              /\ LET pi == PInt(L[i].parent) IN
                   /\ pi >= 1 /\ pi < i
                   /\ \E par \in SeqSet(hr.dirs) : par.path = ParentPath(d.path) /\ L[pi].extent = par.lba
                                                    /\ \E r \in SeqSet(par.recs) : r.extentL = d.lba
       /\ \A i \in DOMAIN L : L[i].xattrLen = 0 /\ L[i].nameLen >= 1
       /\ hr.tableSize = SumPos([i \in DOMAIN L |-> P(PathRecLen(L[i]))])
       /\ Main(vol)[h].pathTableSizeL = hr.tableSize

(* extents as half-open sector intervals <<from, to>> *)
DescExtent == <<FirstDescriptorLBA, FirstDescriptorLBA + 3>>
TableExtents(vol) ==
  UNION { { <<PInt(vol.hier[h].lTableLba), PInt(vol.hier[h].lTableLba) + Sectors(vol.hier[h].tableSize)>>,
            <<PInt(vol.hier[h].mTableLba), PInt(vol.hier[h].mTableLba) + Sectors(vol.hier[h].tableSize)>> } : h \in DOMAIN vol.hier }
DirExtents(vol) ==
  UNION { { <<PInt(d.lba), PInt(d.lba) + Sectors(d.len)>> : d \in SeqSet(vol.hier[h].dirs) } : h \in DOMAIN vol.hier }
FileExtents(vol) ==   \* both hierarchies point at the same data: identical extents count once; empty files have none
  UNION { { <<PInt(f.lba), PInt(f.lba) + Sectors(f.len)>> : f \in { f \in SeqSet(vol.hier[h].files) : f.len # PZero } } : h \in DOMAIN vol.hier }
AllExtents(vol) == {DescExtent} \cup TableExtents(vol) \cup DirExtents(vol) \cup FileExtents(vol)

ExtentsInsideDisjoint(vol) ==
  LET E == AllExtents(vol) IN
  /\ \A e \in E : e[1] >= SystemAreaSectors /\ e[1] < e[2] /\ e[2] <= TotalSectors(vol)
  /\ \A a \in E : \A b \in E : a = b \/ a[2] <= b[1] \/ b[2] <= a[1]
  \* the directory and table extents of the two hierarchies must be different objects
  /\ Cardinality(DirExtents(vol)) = Cardinality(UNION { { <<h, i>> : i \in DOMAIN vol.hier[h].dirs } : h \in DOMAIN vol.hier })
  /\ Cardinality(TableExtents(vol)) = 2 * Len(vol.hier)

PaddingZero(vol) ==
  /\ \A h \in DOMAIN vol.hier : /\ \A d \in SeqSet(vol.hier[h].dirs) : d.tailZero
                                /\ \A f \in SeqSet(vol.hier[h].files) : f.padZero
  /\ \A i \in DOMAIN Main(vol) : Main(vol)[i].tailZero
  /\ vol.descs[Len(vol.descs)].restZero
  /\ vol.ps3.restZero

Ps3Sectors(vol, ps3, titleId) ==
  IF ~ps3 THEN vol.systemAreaZero
  ELSE /\ vol.ps3.regionCount = P(1)                 \* the whole volume is one plain region
       /\ vol.ps3.regionStart = PZero
       /\ vol.ps3.regionEnd = P(TotalSectors(vol) - 1)
       /\ vol.ps3.consoleId = "PlayStation3"
       /\ vol.ps3.productId = titleId[1] \o "-" \o titleId[2]

Clauses(vol, ps3, titleId) == <<
  <<"NoDecodeErrors", NoDecodeErrors(vol)>>,
  <<"DescriptorsInPlace", NoDecodeErrors(vol) => DescriptorsInPlace(vol)>>,
  <<"SizeAgrees", NoDecodeErrors(vol) => SizeAgrees(vol)>>,
  <<"BothEndianAgree", NoDecodeErrors(vol) => BothEndianAgree(vol)>>,
  <<"RecordFitsLengthByte", NoDecodeErrors(vol) => RecordFitsLengthByte(vol)>>,
  <<"NoStraddle", NoDecodeErrors(vol) => NoStraddle(vol)>>,
  <<"RootAgrees", NoDecodeErrors(vol) => RootAgrees(vol)>>,
  <<"DotDotLinks", NoDecodeErrors(vol) => DotDotLinks(vol)>>,
  <<"ChildLinks", NoDecodeErrors(vol) => ChildLinks(vol)>>,
  <<"PathTablesEqualAndComplete", NoDecodeErrors(vol) => PathTablesEqualAndComplete(vol)>>,
  <<"ExtentsInsideDisjoint", NoDecodeErrors(vol) => ExtentsInsideDisjoint(vol)>>,
  <<"PaddingZero", NoDecodeErrors(vol) => PaddingZero(vol)>>,
  <<"Ps3Sectors", NoDecodeErrors(vol) => Ps3Sectors(vol, ps3, titleId)>>
>>
FailedClauses(vol, ps3, titleId) ==
  LET C == Clauses(vol, ps3, titleId) IN { C[i][1] : i \in { j \in DOMAIN C : ~C[j][2] } }
ValidVolume(vol, ps3, titleId) == FailedClauses(vol, ps3, titleId) = {}

(* Image creation may be refused only for trees that cannot be represented:  *)
(* a name whose record would not fit the one-byte record length (in either   *)
(* hierarchy), an entry that cannot be stat'ed (dangling link), or - in PS3   *)
(* mode - a missing PS3_GAME/PARAM.SFO.                                       *)
OpenMayFail(tree, ps3) ==
  \/ \E n \in SeqSet(tree) : RecordLenFor(n.name.bytes) > 255 \/ RecordLenFor(2 * n.name.utf16units) > 255
  \/ \E n \in SeqSet(tree) : n.kind = "dangling"
  \/ ps3 /\ ~\E n \in SeqSet(tree) : n.path = <<"PS3_GAME", "PARAM.SFO">> /\ n.kind = "file"
  \/ Cardinality({ n \in SeqSet(tree) : n.kind = "dir" }) + 1 > 65535      \* directory numbers are 16-bit

(* --------------------------------------------------------------- C07 *)
TreeNode(tree, p) == CHOOSE n \in SeqSet(tree) : n.path = p
AllPortable(tree, p) == \A i \in 1..Len(p) : TreeNode(tree, SubSeq(p, 1, i)).name.portable
ExpName(joliet, n) == IF joliet THEN n.name.raw ELSE n.name.upper
ExpPath(tree, joliet, p) == [i \in 1..Len(p) |-> ExpName(joliet, TreeNode(tree, SubSeq(p, 1, i)))]

FileRecs(hr, path) == SelectSeq(hr.files, LAMBDA f : f.path = path)

(* the windows of one extent show the right bytes: base = offset of the      *)
(* extent within the file                                                    *)
RECURSIVE RunsOK(_, _, _, _)
RunsOK(runs, cid, at, sparse) ==
  IF runs = << >> THEN TRUE
  ELSE LET r == Head(runs) IN
       /\ \/ r.srcs = <<cid>> /\ r.off = at
          \/ sparse /\ r.srcs = <<"?zero">>
       /\ RunsOK(Tail(runs), cid, PAdd(at, P(r.len)), sparse)
WindowsOK(f, cid, base, sparse) ==
  \A w \in SeqSet(f.wins) :
    \/ RunsOK(w.runs, cid, PAdd(base, w.rel), sparse)
    \/ base = PZero /\ cid \in SeqSet(w.alt)     \* content without self-identifying pattern: compared at the same offset
    \* windows too short to identify themselves: the harness verified the bytes at an offset of its choosing (altAt.off);
    \* it counts only if that is the offset expected here
    \/ w.altAt.off = PAdd(base, w.rel) /\ cid \in SeqSet(w.altAt.srcs)

RECURSIVE ExtentsOK(_, _, _, _)
ExtentsOK(recs, cid, base, sparse) ==
  IF recs = << >> THEN TRUE
  ELSE /\ WindowsOK(Head(recs), cid, base, sparse)
       /\ (Head(recs).multi <=> Len(recs) > 1)          \* every extent but the last is flagged "more follow"
       /\ (Len(recs) > 1 => PLe(Head(recs).len, P(0) ) = FALSE)
       /\ ExtentsOK(Tail(recs), cid, PAdd(base, Head(recs).len), sparse)

FileRepresented(hr, tree, n) ==
  LET recs == FileRecs(hr, ExpPath(tree, hr.joliet, n.path)) IN
  /\ Len(recs) >= 1
  /\ SumPos([i \in DOMAIN recs |-> recs[i].len]) = n.size
  /\ ExtentsOK(recs, n.cid, PZero, n.sparse)
  /\ \A i \in DOMAIN recs : PLe(recs[i].len, <<MaxExtentBytesSectors, 2047>>)   \* fits a 32-bit length field

TreeDirs(tree) == { n \in SeqSet(tree) : n.kind = "dir" }
TreeFiles(tree) == { n \in SeqSet(tree) : n.kind = "file" }
TwoHierarchies(vol) == Len(vol.hier) = 2 /\ ~vol.hier[1].joliet /\ vol.hier[2].joliet
OnlyDirsAndFiles(tree) == \A n \in SeqSet(tree) : n.kind \in {"dir", "file"}
(* exactly the directories of the tree (plus the root) ...                   *)
DirsExactly(vol, tree) ==
  \A h \in DOMAIN vol.hier :
    LET hr == vol.hier[h] IN
    /\ Cardinality(SeqSet(hr.dirs)) = Cardinality(TreeDirs(tree)) + 1
    /\ \A n \in { n \in TreeDirs(tree) : AllPortable(tree, n.path) } : HasDir(hr, ExpPath(tree, hr.joliet, n.path))
(* ... exactly the files ...                                                  *)
FilesExactly(vol, tree) ==
  \A h \in DOMAIN vol.hier :
    LET hr == vol.hier[h] IN
    /\ Cardinality({ f.path : f \in SeqSet(hr.files) }) = Cardinality(TreeFiles(tree))
    /\ \A n \in { n \in TreeFiles(tree) : AllPortable(tree, n.path) } : Len(FileRecs(hr, ExpPath(tree, hr.joliet, n.path))) >= 1
(* ... each with its size and bytes                                           *)
FileContent(vol, tree) ==
  \A h \in DOMAIN vol.hier :
    \A n \in { n \in TreeFiles(tree) : AllPortable(tree, n.path) } : FileRepresented(vol.hier[h], tree, n)
(* total data volume agrees even for names that are not portable              *)
TotalData(vol, tree) ==
  \A h \in DOMAIN vol.hier :
    LET hr == vol.hier[h]
        tf == SelectSeq(tree, LAMBDA n : n.kind = "file")
    IN SumPos([i \in DOMAIN hr.files |-> hr.files[i].len]) = SumPos([i \in DOMAIN tf |-> tf[i].size])

ContentClauses(vol, tree) == <<
  <<"TwoHierarchies", TwoHierarchies(vol)>>,
  <<"OnlyDirsAndFiles", OnlyDirsAndFiles(tree)>>,
  <<"DirsExactly", TwoHierarchies(vol) => DirsExactly(vol, tree)>>,
  <<"FilesExactly", TwoHierarchies(vol) => FilesExactly(vol, tree)>>,
  <<"FileContent", (TwoHierarchies(vol) /\ FilesExactly(vol, tree)) => FileContent(vol, tree)>>,
  <<"TotalData", TwoHierarchies(vol) => TotalData(vol, tree)>>
>>
FailedContent(vol, tree) ==
  LET C == ContentClauses(vol, tree) IN { C[i][1] : i \in { j \in DOMAIN C : ~C[j][2] } }
Represents(vol, tree) == FailedContent(vol, tree) = {}
=============================================================================
