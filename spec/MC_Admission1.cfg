CONSTANTS
  Clients = {c1, c2, c3, c4}
  Limit = 1
  Allowed = {c1, c3}
SPECIFICATION Spec
INVARIANTS TypeOK AtMostN SlotsAccounted OnlyAllowedServed
PROPERTIES CapacityRecovers
CHECK_DEADLOCK FALSE
