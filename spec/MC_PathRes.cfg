CONSTANTS MaxLen = 5
INIT Init
NEXT Next
INVARIANTS Confined EscapeConsistent
CHECK_DEADLOCK FALSE
