----------------------------- MODULE EncryptedIso -----------------------------
(***************************************************************************)
(* Decrypting view of a PS3 disc image (fs.EncryptedISO, psdevwiki           *)
(* "Bluray disc # Encryption") and the 3k3y masking view (fs.ISO3k3y).       *)
(*                                                                           *)
(* Sector 0 starts with the table of PLAIN regions: count (be32), 4 pad      *)
(* bytes, then count pairs <<first, last>> of sector numbers (be32), both    *)
(* inclusive (the format's reading: tables of real discs end regions on      *)
(* ...3F / ...FF, and this project's own image generator declares the whole  *)
(* volume as [0, size - 1]).  The sectors strictly between two consecutive   *)
(* plain regions are stored encrypted, each 2048-byte sector AES-128-CBC     *)
(* with an IV holding the sector number and the key derived from the disc    *)
(* key.                                                                      *)
(*                                                                           *)
(* The cipher itself is not modelled: the harness reports for every segment  *)
(* of returned bytes which candidate it equals - the stored bytes ("raw"),   *)
(* zeros ("zero"), or the per-sector decryption under a named key            *)
(* ("dec:<key>") - and this module says which candidate is right.            *)
(***************************************************************************)
EXTENDS Integers, Sequences, FiniteSets, Pos

MaxRegions == 255       \* the table must fit sector 0: 8 + 8 * 255 = 2048

(* regions: sequence of <<start, end>>; count: the count field (Pos)         *)
(* WellFormed: what every accepted table satisfies; ValidTable: what must be *)
(* accepted (a table longer than sector 0 can hold is left unspecified).     *)
WellFormed(regions, count) ==
  /\ count = P(Len(regions))
  /\ Len(regions) >= 2
  /\ regions[1][1] = 0
  /\ \A i \in DOMAIN regions : regions[i][1] <= regions[i][2]
  /\ \A i \in 2..Len(regions) : regions[i - 1][2] < regions[i][1]
ValidTable(regions, count) ==
  /\ count = P(Len(regions))
  /\ Len(regions) >= 2 /\ Len(regions) <= MaxRegions
  /\ regions[1][1] = 0
  /\ \A i \in DOMAIN regions : regions[i][1] <= regions[i][2]
  /\ \A i \in 2..Len(regions) : regions[i - 1][2] < regions[i][1]

Encrypted(regions, s) == \E i \in 2..Len(regions) : regions[i - 1][2] < s /\ s < regions[i][1]

HeaderBytes(regions) == 8 + 8 * Len(regions)
MaskFrom == 3952    \* 0xF70: 3k3y watermark, key and filler ...
MaskTo == 4208      \* ... up to 0x1070, read as zeros through the 3k3y view

(* What the bytes [from, to) (one segment inside one sector) of the view     *)
(* must be.  cfg: [regions, clear (zero the region table), masked (3k3y      *)
(* view), decrypting, key (name of the key that applies)]                    *)
SegClass(cfg, seg) ==
  LET from == PInt(seg.from)
      to == PInt(seg.to)
  IN IF cfg.masked /\ from >= MaskFrom /\ to <= MaskTo THEN {"zero"}
     ELSE IF cfg.clear /\ cfg.decrypting /\ to <= HeaderBytes(cfg.regions) THEN {"zero"}
     \* (a sector the image ends in - malformed image, not a multiple of 2048 - cannot be decrypted: served as stored)
     ELSE IF cfg.decrypting /\ Encrypted(cfg.regions, seg.sector) /\ seg.whole THEN {"dec:" \o cfg.key}
     ELSE {"raw"}

(* a segment straddling one of the special boundaries cannot be classified:  *)
(* the driver always cuts there (cuts in the script)                         *)
Straddles(cfg, seg) ==
  LET from == PInt(seg.from)
      to == PInt(seg.to)
      cutsAt(b) == from < b /\ b < to
  IN (cfg.masked /\ (cutsAt(MaskFrom) \/ cutsAt(MaskTo))) \/ (cfg.clear /\ cutsAt(HeaderBytes(cfg.regions)))

SegOK(cfg, seg) ==
  /\ ~Straddles(cfg, seg)
  /\ \E c \in SegClass(cfg, seg) : \E i \in DOMAIN seg.classes : seg.classes[i] = c

SegsOK(cfg, segs) == \A i \in DOMAIN segs : SegOK(cfg, segs[i])
=============================================================================
