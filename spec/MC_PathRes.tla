----------------------------- MODULE MC_PathRes -----------------------------
(***************************************************************************)
(* C01 at the design level: every wire path, once normalised, stays below   *)
(* the root under the mechanism the server relies on (afero BasePathFs:     *)
(* join, clean, string-prefix test) - and the mechanism ALONE does not      *)
(* confine (the sibling-prefix escape), which is why normalisation of every *)
(* wire path is required.  Also the generator of wire paths for the         *)
(* conformance run (<<"PATH", json>> lines).                                *)
(***************************************************************************)
EXTENDS PathRes, TLC, Json

CONSTANTS MaxLen

Names == {"..", ".", "", "a", "f1", "g-other", "secret", "nope", "***DVD***"}
RootAbs == <<"scratch", "g">>
(* the name "g" is a string prefix of "g-other" *)
StrPrefix(x, y) == x = "g" /\ y = "g-other"

RECURSIVE SeqsUpTo(_)
SeqsUpTo(n) == IF n = 0 THEN { << >> } ELSE LET S == SeqsUpTo(n - 1) IN S \cup { Append(s, x) : s \in { t \in S : Len(t) = n - 1 }, x \in Names }
WirePaths == SeqsUpTo(MaxLen)

VARIABLE p
Init == p \in WirePaths
Next == UNCHANGED p

IsUnderBase(real) == Len(real) >= Len(RootAbs) /\ SubSeq(real, 1, Len(RootAbs)) = RootAbs

(* holds: normalise first, then the mechanism yields exactly base + Norm(p)  *)
Confined ==
  LET real == MechRealPath(RootAbs, Norm(p), StrPrefix) IN
  /\ real = RootAbs \o Norm(p)
  /\ IsUnderBase(real)
  /\ \A i \in DOMAIN Norm(p) : Norm(p)[i] \notin {"..", ".", ""}

(* does NOT hold (documented counterexample <<"..", "g-other">>): the       *)
(* mechanism applied to the raw wire path                                   *)
MechanismAloneConfines ==
  LET real == MechRealPath(RootAbs, p, StrPrefix) IN real = <<"#ERR">> \/ IsUnderBase(real)

(* escaping paths are exactly those whose raw join leaves the base at some   *)
(* point; clamping and refusing agree on everything else                     *)
EscapeConsistent == ~Escapes(p) => CleanFrom(RootAbs, p) = RootAbs \o Norm(p)

Emit == PrintT(<<"PATH", ToJson(p)>>)
GenInit == p \in WirePaths /\ Emit
=============================================================================
