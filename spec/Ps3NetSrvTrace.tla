--------------------------- MODULE Ps3NetSrvTrace ---------------------------
(***************************************************************************)
(* Trace validation: is a recorded execution of the real server            *)
(* (pkg/server + internal/handler + pkg/fs, driven by /verif/harness) a     *)
(* behaviour of the specification in Ps3Handlers?                          *)
(*                                                                         *)
(* trace.ndjson, one event per line, in the order the harness observed     *)
(* them (requests of one connection are strictly sequential; the harness    *)
(* serialises observation of shared state):                                *)
(*  World   start of a new independent trace: tree, views, write switch     *)
(*  Connect c                                                               *)
(*  Req     c, request, decoded response, whether the server closed the     *)
(*          connection, whether the tree under the root changed (and the    *)
(*          tree as re-read by the harness), open raw handles of c          *)
(*  Close   c: the client hung up; open raw handles of c afterwards         *)
(*  Probe   a fresh connection was answered correctly (liveness after       *)
(*          hostile sessions)                                              *)
(* Every line must be explained by the specification; the number of lines   *)
(* explained is printed as <<"HWM", n>>.                                    *)
(***************************************************************************)
EXTENDS Ps3Handlers, Json

Trace == ndJsonDeserialize("trace.ndjson")

VARIABLES l, fs, views, aw, conn, tmo

tvars == <<l, fs, views, aw, conn, tmo>>

SetOf(seq) == { seq[i] : i \in DOMAIN seq }
ViewsOf(seq) == [ key \in { <<seq[i].vk, seq[i].p>> : i \in DOMAIN seq } |->
                  LET v == CHOOSE i \in DOMAIN seq : <<seq[i].vk, seq[i].p>> = key IN [cid |-> seq[v].cid, size |-> seq[v].size] ]

Proj(n) == [p |-> n.p, kind |-> n.kind, size |-> IF n.kind = "file" THEN n.size ELSE PZero,
            cid |-> IF n.kind = "file" THEN n.cid ELSE "", target |-> IF n.kind = "link" THEN n.target ELSE << >>]
ProjTree(t) == { Proj(n) : n \in t }
(* the same, ignoring size and content of the files in wild                  *)
ProjW(n, wild) == IF n.p \in wild /\ n.kind = "file" THEN [Proj(n) EXCEPT !.size = PZero, !.cid = "?"] ELSE Proj(n)
ProjTreeW(t, wild) == { ProjW(n, wild) : n \in t }

NoConns == [c \in {} |-> [st |-> "none", cs |-> InitCs]]

IsEvent(e) == l <= Len(Trace) /\ Trace[l].ev = e /\ l' = l + 1

(* ------------------------------------------------------------ matching *)
FieldsMatch(e, o) ==
  LET w == IF "wild" \in DOMAIN e THEN e.wild ELSE {} IN
  \A f \in (DOMAIN e) \ ({"wild", "k"} \cup w) : f \in DOMAIN o /\ o[f] = e[f]

RunMatches(er, orun) ==
  \/ er.src \in SetOf(orun.srcs) /\ er.off = orun.off /\ er.len = orun.len
  \/ orun.srcs = <<"?short">> /\ er.len = orun.len   \* a tail of < 16 bytes the harness could not locate
DataMatches(eruns, oruns) == Len(eruns) = Len(oruns) /\ \A i \in DOMAIN eruns : RunMatches(eruns[i], oruns[i])

Matches(e, o) ==
  CASE e.k = "Any"     -> o.k \notin {"Garbage", "None"}
    [] e.k = "None"    -> o.k = "None"
    [] e.k = "Unjudged" -> TRUE
    [] e.k = "ReadNonPositive" -> o.k = "Read" /\ o.n <= 0 /\ o.runs = << >>
    [] e.k = "ReadDirSubset" -> o.k = "ReadDir" /\ SetOf(o.ents) \subseteq e.ents /\ Len(o.ents) = Cardinality(SetOf(o.ents))
    [] e.k = "ReadDir" -> /\ o.k = "ReadDir"
                          /\ Len(o.ents) = Cardinality(e.ents)
                          /\ SetOf(o.ents) = e.ents
    [] e.k = "Read"    -> o.k = "Read" /\ o.n = e.n /\ DataMatches(e.runs, o.runs)
    [] e.k = "Raw"     -> \/ o.k = "Raw" /\ DataMatches(e.runs, o.runs)
                          \/ o.k = "None" /\ e.runs = << >>          \* zero bytes requested
    \* an honestly announced shorter count followed by exactly that many right bytes (only offered after a filesystem fault)
    [] e.k = "ReadPrefix" -> o.k = "Read" /\ o.n >= 0 /\ o.n <= RunsLen(e.runs) /\ DataMatches(TruncRuns(e.runs, o.n), o.runs)
    \* the right count was announced, a correct prefix followed and then the connection ended (only after a filesystem fault)
    [] e.k = "ReadCut" -> o.k = "ReadCut" /\ o.n = RunsLen(e.runs) /\ RunsLen(o.runs) < o.n /\ DataMatches(TruncRuns(e.runs, RunsLen(o.runs)), o.runs)
    [] e.k = "RawPrefix" -> \/ o.k = "Raw" /\ o.len <= RunsLen(e.runs) /\ DataMatches(TruncRuns(e.runs, o.len), o.runs)
                            \/ o.k = "None"                          \* the empty prefix
    [] OTHER           -> o.k = e.k /\ FieldsMatch(e, o)

(* ------------------------------------------------------------- actions *)
TraceInit == TLCSet(1, 0) /\ l = 1 /\ fs = {} /\ views = << >> /\ aw = FALSE /\ conn = NoConns /\ tmo = 0

(***************************************************************************)
(* C16 (in process): the in-memory connection records every SetReadDeadline *)
(* call (time of the call, deadline; ms).  With a read timeout T configured *)
(* the loop arms exactly once before waiting for each command - once after  *)
(* connect, once after every answered request, never for the bytes of an     *)
(* incomplete request - always to now + T; without one it never arms.  A     *)
(* silent connection is cut by that deadline: not before T after the last    *)
(* arming, and soon after.                                                   *)
(***************************************************************************)
ArmTol == 15          \* ms between time.Now() inside the server and the recorded call time
CutSlack == 1500      \* ms the server may take to notice the passed deadline on a loaded machine
ArmOK(arm) == arm[2] - arm[1] >= tmo - ArmTol /\ arm[2] - arm[1] <= tmo + ArmTol
ArmsOK(arms, expectArm) ==
  IF tmo = 0 THEN arms = << >>
  ELSE IF expectArm THEN Len(arms) = 1 /\ ArmOK(arms[1])
  ELSE arms = << >>
CutOK(e) == e.deadlineHit /\ e.cutAfterMs >= tmo - ArmTol /\ e.cutAfterMs <= tmo + CutSlack

TraceWorld ==
  /\ IsEvent("World")
  /\ LET e == Trace[l] IN
       /\ e.libPanics = << >>          \* C04: building the reference image of a directory must not panic either
       /\ fs' = SetOf(e.nodes)
       /\ views' = ViewsOf(e.views)
       /\ aw' = e.aw
       /\ tmo' = e.timeoutMs
       /\ conn' = NoConns

TraceConnect ==
  /\ IsEvent("Connect")
  /\ LET c == Trace[l].c IN
       /\ c \notin DOMAIN conn
       /\ conn' = [x \in DOMAIN conn \cup {c} |-> IF x = c THEN [st |-> "serving", cs |-> InitCs] ELSE conn[x]]
       /\ ArmsOK(Trace[l].arms, TRUE)
  /\ UNCHANGED <<fs, views, aw, tmo>>

(* a change of the tree stales every listing cursor walking a changed dir  *)
ChangedDirs(old, new) ==
  { Parent(n.p) : n \in { n \in (ProjTree(old) \ ProjTree(new)) \cup (ProjTree(new) \ ProjTree(old)) : n.p # << >> } }
StaleOthers(cn, c, dirs) ==
  [d \in DOMAIN cn |-> IF d # c /\ cn[d].st = "serving" /\ cn[d].cs.dir.open /\ cn[d].cs.dir.path \in dirs
                        THEN [cn[d] EXCEPT !.cs.dir.undef = TRUE] ELSE cn[d]]

TraceReq ==
  /\ IsEvent("Req")
  /\ LET e == Trace[l]
         c == e.c
     IN /\ c \in DOMAIN conn
        /\ conn[c].st = "serving"
        /\ e.hang = FALSE
        /\ ArmsOK(e.arms, ~e.closed)                 \* armed again iff the loop goes on
        /\ (e.stalled => CutOK(e))                   \* a request stalled half-way is ended by the deadline armed before it
        \* a peer that stops reading the reply (and stays silent) is cut as well, T after the transfer stopped moving
        /\ (e.wstalled => (tmo > 0 => (e.closed /\ CutOK(e))))
        /\ \E o \in HandleF(conn[c].cs, fs, e.req, aw, views, e.faults) :
             /\ Matches(o.resp, e.resp)
             /\ o.close = e.closed
             /\ IF e.mut
                THEN /\ ProjTreeW(SetOf(e.tree), o.wild) = ProjTreeW(o.fs, o.wild)
                     /\ fs' = SetOf(e.tree)
                ELSE /\ ProjTreeW(o.fs, o.wild) = ProjTreeW(fs, o.wild)
                     /\ fs' = fs
             /\ IF e.handles = -1 THEN TRUE   \* concurrent run: the ledger cannot attribute handles to connections
                ELSE IF e.closed
                THEN e.handles = 0      \* teardown releases everything (LedgerBalanced)
                ELSE \/ e.handles >= RawHeldMin(o.cs) /\ e.handles <= RawHeldMax(o.cs, o.fs)
                     \/ e.faults > 0 /\ e.handles <= 3 + RawHeldMax(o.cs, o.fs)   \* where a fault leaves the state is unspecified; the ledger is settled at the end
             /\ conn' = StaleOthers([conn EXCEPT ![c] = IF e.closed THEN [st |-> "closed", cs |-> InitCs]
                                                          ELSE [st |-> "serving", cs |-> o.cs]],
                                    c, ChangedDirs(fs, o.fs))
  /\ views' = IF Trace[l].mut THEN ViewsOf(Trace[l].views) ELSE views   \* generated images follow the tree
  /\ aw' = aw /\ tmo' = tmo

TraceClose ==
  /\ IsEvent("Close")
  /\ LET e == Trace[l] IN
       /\ e.c \in DOMAIN conn
       /\ conn[e.c].st = "serving"
       /\ e.handles = 0
       /\ e.arms = << >>
       /\ (e.how = "timeout" => (tmo > 0 /\ e.serverClosed /\ CutOK(e)))
       /\ conn' = [conn EXCEPT ![e.c] = [st |-> "closed", cs |-> InitCs]]
  /\ UNCHANGED <<fs, views, aw, tmo>>

TraceProbe ==
  /\ IsEvent("Probe")
  /\ Trace[l].ok = TRUE
  /\ UNCHANGED <<fs, views, aw, conn, tmo>>

(* C01: the sentinel zone around the root is bit-identical after the session, *)
(* and every real path the stack handed to the operating system lies under    *)
(* the root (segment-wise; paths are relative to the directory that holds     *)
(* the root, so the first segment must be the root's own name).               *)
TraceSentinel ==
  /\ IsEvent("Sentinel")
  /\ Trace[l].same = TRUE
  /\ UNCHANGED <<fs, views, aw, conn, tmo>>

UnderRoot(rootName, p) == Len(p) >= 1 /\ p[1] = rootName /\ \A i \in DOMAIN p : p[i] # DotDot
TraceRealPaths ==
  /\ IsEvent("RealPaths")
  /\ LET e == Trace[l] IN \A i \in DOMAIN e.paths : UnderRoot(e.rootName, e.paths[i])
  /\ UNCHANGED <<fs, views, aw, conn, tmo>>

(* C13: once every connection of the world has ended nothing is left behind *)
TraceQuiesce ==
  /\ IsEvent("Quiesce")
  /\ Trace[l].gor = 0 /\ Trace[l].open = 0
  /\ UNCHANGED <<fs, views, aw, conn, tmo>>

TraceFsOps == IsEvent("FsOps") /\ UNCHANGED <<fs, views, aw, conn, tmo>>    \* informational: the operations of a clean run

TraceNext == TraceQuiesce \/ TraceFsOps \/ TraceWorld \/ TraceConnect \/ TraceReq \/ TraceClose \/ TraceProbe \/ TraceSentinel \/ TraceRealPaths

TraceSpec == TraceInit /\ [][TraceNext]_tvars

(* number of lines explained: l - 1 is monotone along the (single) behaviour *)
HwmConstraint == TLCSet(1, IF TLCGet(1) < l - 1 THEN l - 1 ELSE TLCGet(1))
TraceAccepted ==
  /\ PrintT(<<"HWM", TLCGet(1)>>)
  /\ TLCGet(1) = Len(Trace)
=============================================================================
