------------------------------- MODULE Timeout -------------------------------
(***************************************************************************)
(* The read timeout of a connection (pkg/server.serveConn):                  *)
(*   at the top of every loop iteration the read deadline is armed to        *)
(*   now + T; reading the next command (16 bytes + path) must finish before  *)
(*   it; a complete request is answered and the loop arms again.  Bytes of   *)
(*   an incomplete request do NOT re-arm.  When the deadline passes while    *)
(*   the server waits, the read fails and the connection is torn down.       *)
(* While an answer is being sent the connection is "writing": every write of *)
(* the answer arms its own write deadline to now + T (Progress), so a        *)
(* transfer may take any time as long as it moves, and a peer that stops     *)
(* reading (no Progress for T) is cut as well (WriteTimeout).                *)
(* Discrete time; Tick is not allowed to run away from a due timeout by more *)
(* than Slack (the server reacts within Slack ticks).                        *)
(***************************************************************************)
EXTENDS Integers, FiniteSets

CONSTANTS Conns, T, Slack, MaxTime

VARIABLES now, st, armedAt, partial, hist
vars == <<now, st, armedAt, partial, hist>>

Init ==
  /\ now = 0
  /\ st = [c \in Conns |-> "waiting"]        \* connected: the loop has armed the first deadline
  /\ armedAt = [c \in Conns |-> 0]
  /\ partial = [c \in Conns |-> FALSE]
  /\ hist = [c \in Conns |-> [cutAt |-> -1, lastArm |-> 0]]

Due(c) == st[c] = "waiting" /\ now >= armedAt[c] + T
WDue(c) == st[c] = "writing" /\ now >= armedAt[c] + T

(* a complete request arrives in time: answered, deadline armed again *)
Request(c) ==
  /\ st[c] = "waiting" /\ ~Due(c)
  /\ armedAt' = [armedAt EXCEPT ![c] = now]
  /\ partial' = [partial EXCEPT ![c] = FALSE]
  /\ hist' = [hist EXCEPT ![c].lastArm = now]
  /\ UNCHANGED <<now, st>>

(* a complete request whose answer is a transfer: the connection starts writing, the first write arms the write deadline *)
StartTransfer(c) ==
  /\ st[c] = "waiting" /\ ~Due(c)
  /\ st' = [st EXCEPT ![c] = "writing"]
  /\ armedAt' = [armedAt EXCEPT ![c] = now]
  /\ partial' = [partial EXCEPT ![c] = FALSE]
  /\ hist' = [hist EXCEPT ![c].lastArm = now]
  /\ UNCHANGED now

(* the peer took some more bytes: the next write arms again *)
Progress(c) ==
  /\ st[c] = "writing" /\ ~WDue(c)
  /\ armedAt' = [armedAt EXCEPT ![c] = now]
  /\ hist' = [hist EXCEPT ![c].lastArm = now]
  /\ UNCHANGED <<now, st, partial>>

(* the answer is complete: back to waiting for the next command, read deadline armed *)
EndTransfer(c) ==
  /\ st[c] = "writing" /\ ~WDue(c)
  /\ st' = [st EXCEPT ![c] = "waiting"]
  /\ armedAt' = [armedAt EXCEPT ![c] = now]
  /\ hist' = [hist EXCEPT ![c].lastArm = now]
  /\ UNCHANGED <<now, partial>>

(* the transfer has not moved for T: the blocked write fails, the connection is torn down *)
WriteTimeout(c) ==
  /\ WDue(c)
  /\ st' = [st EXCEPT ![c] = "cut"]
  /\ hist' = [hist EXCEPT ![c].cutAt = now]
  /\ UNCHANGED <<now, armedAt, partial>>

(* some bytes of a request arrive, not all of it: nothing is re-armed *)
Partial(c) ==
  /\ st[c] = "waiting" /\ ~Due(c)
  /\ partial' = [partial EXCEPT ![c] = TRUE]
  /\ UNCHANGED <<now, st, armedAt, hist>>

Timeout(c) ==
  /\ Due(c)
  /\ st' = [st EXCEPT ![c] = "cut"]
  /\ hist' = [hist EXCEPT ![c].cutAt = now]
  /\ UNCHANGED <<now, armedAt, partial>>

ClientClose(c) ==
  /\ st[c] \in {"waiting", "writing"}
  /\ st' = [st EXCEPT ![c] = "closed"]
  /\ UNCHANGED <<now, armedAt, partial, hist>>

Tick ==
  /\ now < MaxTime
  /\ \A c \in Conns : st[c] \in {"waiting", "writing"} => now < armedAt[c] + T + Slack     \* urgency
  /\ now' = now + 1
  /\ UNCHANGED <<st, armedAt, partial, hist>>

Next == Tick \/ \E c \in Conns : Request(c) \/ Partial(c) \/ Timeout(c) \/ ClientClose(c)
                                 \/ StartTransfer(c) \/ Progress(c) \/ EndTransfer(c) \/ WriteTimeout(c)
Spec == Init /\ [][Next]_vars /\ WF_vars(Tick) /\ \A c \in Conns : WF_vars(Timeout(c)) /\ WF_vars(WriteTimeout(c))

(* an active connection is never cut: a cut happens only a full T after the last arming *)
NoEarlyCut == \A c \in Conns : st[c] = "cut" => hist[c].cutAt >= hist[c].lastArm + T
(* ... and not later than T + Slack *)
CutInTime == \A c \in Conns : st[c] \in {"waiting", "writing"} => now <= armedAt[c] + T + Slack
(* an idle connection is eventually cut (or the client leaves, or the model's clock ends) *)
IdleCut == \A c \in Conns : [](Due(c) => <>(st[c] # "waiting"))
(* ... and so is one whose peer stopped taking the answer *)
StalledCut == \A c \in Conns : [](WDue(c) => <>(st[c] # "writing"))
=============================================================================
