CONSTANTS V4Len = 4 V6Len = 16
INIT TraceInit
NEXT TraceNext
CONSTRAINT HwmConstraint
POSTCONDITION TraceAccepted
CHECK_DEADLOCK FALSE
