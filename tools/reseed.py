#!/usr/bin/env python3
"""reseed.py [ids...] : re-apply every kept seeded change (seeded/<id>/patch.diff) to /repo's current tree, run the check(s) that
caught it (quick tier), undo it.  Reports which are still caught, which no longer apply (the code they touch has changed)."""
import json
import os
import subprocess
import sys

HERE = os.path.dirname(os.path.abspath(__file__))
ROOT = os.path.dirname(HERE)
REPO = "/repo"


def git(*a):
    return subprocess.run(["git", "-C", REPO] + list(a), stdout=subprocess.PIPE, stderr=subprocess.STDOUT, text=True)


def main():
    ids = sys.argv[1:] or sorted(os.listdir(os.path.join(ROOT, "seeded")))
    if git("status", "--porcelain").stdout.strip():
        print("refusing: /repo is not clean")
        return 2
    res = {}
    if sys.argv[1:] and os.path.exists(os.path.join(ROOT, "seeded", "RESEED.json")):
        res = json.load(open(os.path.join(ROOT, "seeded", "RESEED.json")))      # a partial run updates the last full one
    for i in ids:
        d = os.path.join(ROOT, "seeded", i)
        patch = os.path.join(d, "patch.diff")
        if not os.path.exists(patch):
            continue
        meta = json.load(open(os.path.join(d, "meta.json")))
        caught = [c for c, r in (meta.get("checks") or {}).items() if r.get("rc") == 1] or [meta.get("property")]
        if git("apply", "--check", patch).returncode != 0:
            res[i] = "no-longer-applies"
            print(i, res[i], flush=True)
            continue
        git("apply", patch)
        try:
            b = subprocess.run(["go", "build", "./..."], cwd=REPO, env=dict(os.environ, GOFLAGS="-mod=mod", GOPROXY="off", GOSUMDB="off", GOTOOLCHAIN="local"),
                               stdout=subprocess.PIPE, stderr=subprocess.STDOUT, text=True)
            if b.returncode != 0:
                res[i] = "no-longer-builds"
            else:
                got = []
                for c in caught:
                    p = subprocess.run([sys.executable, os.path.join(HERE, "check.py"), c, "--tier", "quick"], stdout=subprocess.PIPE, stderr=subprocess.STDOUT, text=True,
                                       env=dict(os.environ, VERIF_EVIDENCE_DIR="/tmp/reseed-evidence"))
                    got.append((c, p.returncode))
                    if p.returncode == 1:
                        break
                res[i] = "caught:" + ",".join(c for c, rc in got if rc == 1) if any(rc == 1 for _, rc in got) else "MISSED:" + str(got)
        finally:
            git("checkout", "--", ".")
            git("clean", "-fdq")
        print(i, res[i], flush=True)
    json.dump(res, open(os.path.join(ROOT, "seeded", "RESEED.json"), "w"), indent=1, sort_keys=True)
    return 0


if __name__ == "__main__":
    sys.exit(main())
