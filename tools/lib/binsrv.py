"""Black-box driver for the real ps3netsrv-go binary (built from /repo's current tree):
start it with flags / environment / INI files, find the address it bound, talk the
protocol over real TCP sockets with chosen source addresses.

The wire encoding comes from proto.json (exported by TLC from spec/Proto.tla)."""
import json
import os
import select
import socket
import subprocess
import threading
import time

from common import CheckError


class Proto:
    def __init__(self, path):
        j = json.load(open(path))
        self.ops = {o["name"]: o for o in j["ops"]}
        self.cmdlen = j["commandLen"]

    def encode(self, op, path=None, payload=b"", **args):
        o = self.ops[op]
        cmd = bytearray(self.cmdlen)
        cmd[0:2] = o["code"].to_bytes(2, "big")
        follow = b""
        if o["follow"] == "path":
            follow = path if isinstance(path, bytes) else (path or "").encode()
            args.setdefault("len", len(follow))
        elif o["follow"] == "payload":
            follow = payload
            args.setdefault("len", len(follow))
        for name, off, width in o["tail"]:
            cmd[2 + off:2 + off + width] = int(args.get(name, 0)).to_bytes(width, "big")
        return bytes(cmd) + follow

    def fixed_len(self, op):
        return sum(w for _, w, _ in self.ops[op]["resp"])

    def decode_fixed(self, op, b):
        out = {}
        o = 0
        for name, w, signed in self.ops[op]["resp"]:
            out[name] = int.from_bytes(b[o:o + w], "big", signed=signed)
            o += w
        return out


class Server:
    """One running binary."""

    def __init__(self, binary, args, env=None, cwd=None, wait_listen=True, timeout=10.0):
        e = {"PATH": os.environ.get("PATH", ""), "HOME": os.environ.get("HOME", "/root"), "TZ": "UTC"}
        if env:
            e.update(env)
        e = {k: v for k, v in e.items() if not (k in ("HOME", "XDG_CONFIG_HOME") and v == "")}    # "" = really unset
        self.args = args
        self.proc = subprocess.Popen([binary] + args, stdout=subprocess.PIPE, stderr=subprocess.PIPE, env=e, cwd=cwd)
        self.lines = []
        self.err = []
        self.addr = None
        self.debug_addr = None
        self._ev = threading.Event()
        self._t = threading.Thread(target=self._pump, daemon=True)
        self._t.start()
        self._t2 = threading.Thread(target=self._pump_err, daemon=True)
        self._t2.start()
        if wait_listen:
            # the address normally comes from the "Listening..." log line; should the wording of the log ever change,
            # the kernel's socket table says where the process (or a child: strace wrapper) listens
            t0 = time.monotonic()
            while time.monotonic() - t0 < timeout:
                if self._ev.wait(0.25):
                    break
                if time.monotonic() - t0 > 2.0 and self.addr is None:
                    ls = self.listening_sockets()
                    if len(ls) == 1:
                        self.addr = ls[0]
                        break

    def _pump(self):
        for raw in self.proc.stdout:
            line = raw.decode("utf-8", "replace").rstrip("\n")
            self.lines.append(line)
            if "Listening..." in line and self.addr is None:
                self.addr = self._parse_addr(line)
                self._ev.set()
            if "Debug sever listening" in line:
                self.debug_addr = self._parse_addr(line)
        self._ev.set()

    def _pump_err(self):
        for raw in self.proc.stderr:
            self.err.append(raw.decode("utf-8", "replace").rstrip("\n"))

    @staticmethod
    def _parse_addr(line):
        import re
        try:
            j = json.loads(line)
            a = j.get("addr")
            if isinstance(a, list):
                a = a[0]
            if isinstance(a, str) and ":" in a:
                host, port = a.rsplit(":", 1)
                return host.strip("[]"), int(port)
        except ValueError:
            pass
        m = re.search(r"((?:\d{1,3}\.){3}\d{1,3}|\[[0-9a-fA-F:]+\]):(\d+)", line)
        if m:
            return m.group(1).strip("[]"), int(m.group(2))
        return None

    def _pids(self):
        """The process and its descendants."""
        kids = {}
        for d in os.listdir("/proc"):
            if d.isdigit():
                try:
                    st = open("/proc/%s/stat" % d).read()
                    ppid = int(st[st.rindex(")") + 2:].split()[1])
                    kids.setdefault(ppid, []).append(int(d))
                except (OSError, ValueError, IndexError):
                    pass
        out, todo = [], [self.proc.pid]
        while todo:
            x = todo.pop()
            out.append(x)
            todo += kids.get(x, [])
        return out

    def listening_sockets(self):
        """(host, port) of every TCP socket in LISTEN state owned by the process tree (from /proc)."""
        inodes = set()
        for pid in self._pids():
            try:
                for fd in os.listdir("/proc/%d/fd" % pid):
                    try:
                        t = os.readlink("/proc/%d/fd/%s" % (pid, fd))
                    except OSError:
                        continue
                    if t.startswith("socket:["):
                        inodes.add(t[8:-1])
            except OSError:
                pass
        res = []
        for fn, v6 in (("/proc/net/tcp", False), ("/proc/net/tcp6", True)):
            try:
                rows = open(fn).read().splitlines()[1:]
            except OSError:
                continue
            for r in rows:
                f = r.split()
                if len(f) > 9 and f[3] == "0A" and f[9] in inodes:
                    hx, port = f[1].rsplit(":", 1)
                    raw = bytes.fromhex(hx)
                    if v6:
                        b = b"".join(raw[i:i + 4][::-1] for i in range(0, 16, 4))
                        host = socket.inet_ntop(socket.AF_INET6, b)
                        if host == "::":
                            host = "::1"
                    else:
                        host = socket.inet_ntop(socket.AF_INET, raw[::-1])
                        if host == "0.0.0.0":
                            host = "127.0.0.1"
                    res.append((host, int(port, 16)))
        return sorted(set(res))

    def alive(self):
        return self.proc.poll() is None

    def wait_exit(self, timeout=5.0):
        try:
            return self.proc.wait(timeout)
        except subprocess.TimeoutExpired:
            return None

    def stop(self):
        if self.proc.poll() is None:
            self.proc.terminate()
            try:
                self.proc.wait(3)
            except subprocess.TimeoutExpired:
                self.proc.kill()
                self.proc.wait(3)
        return self.proc.returncode

    def crashed(self):
        txt = "\n".join(self.err[-200:])
        return ("panic:" in txt or "fatal error:" in txt), txt[-3000:]


class Client:
    def __init__(self, addr, src=None, timeout=5.0):
        fam = socket.AF_INET6 if ":" in addr[0] else socket.AF_INET
        self.s = socket.socket(fam, socket.SOCK_STREAM)
        self.s.settimeout(timeout)
        if src:
            self.s.bind((src, 0))
        self.s.connect(addr)
        self.closed_by_peer = False
        self.t_connect = time.monotonic()

    def send(self, b):
        try:
            self.s.sendall(b)
            return True
        except OSError:
            self.closed_by_peer = True
            return False

    def recv_exact(self, n, timeout=3.0):
        """Returns (bytes, status) with status in ok | closed | timeout."""
        buf = b""
        deadline = time.monotonic() + timeout
        while len(buf) < n:
            left = deadline - time.monotonic()
            if left <= 0:
                return buf, "timeout"
            r, _, _ = select.select([self.s], [], [], left)
            if not r:
                return buf, "timeout"
            try:
                chunk = self.s.recv(n - len(buf))
            except (ConnectionResetError, BrokenPipeError, OSError):
                self.closed_by_peer = True
                return buf, "closed"
            if not chunk:
                self.closed_by_peer = True
                return buf, "closed"
            buf += chunk
        return buf, "ok"

    def poll(self, timeout):
        """What happened on the socket within timeout: 'data' (bytes available), 'closed', or 'silent'."""
        r, _, _ = select.select([self.s], [], [], timeout)
        if not r:
            return "silent", b""
        try:
            b = self.s.recv(65536, socket.MSG_PEEK)
        except (ConnectionResetError, OSError):
            self.closed_by_peer = True
            return "closed", b""
        if not b:
            self.closed_by_peer = True
            return "closed", b""
        return "data", b

    def close(self, reset=False):
        try:
            if reset:
                import struct
                self.s.setsockopt(socket.SOL_SOCKET, socket.SO_LINGER, struct.pack("ii", 1, 0))
            self.s.close()
        except OSError:
            pass


def require(cond, msg):
    if not cond:
        raise CheckError(msg)
