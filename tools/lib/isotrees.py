"""Directory trees for the generated-image checks (C07 C08 C18 C20): input construction only."""
import struct

import srv

P = 0xFFFFF800          # largest extent of a multi-extent file
W = 64 * 1024


def big_islands(size):
    """Pattern islands where the decoder looks (start, middle, end of every extent) - the rest stays a hole."""
    isl = []
    base = 0
    while base < size:
        plen = min(P, size - base)
        for rel in (0, plen // 2 - W // 2, plen - W):
            rel = max(0, rel)
            isl.append((base + rel, min(W, plen - rel)))
        base += plen
    return isl


def param_sfo(p, title_id, mtime, extra_before=0, extra_after=0, realistic=False):
    """A well-formed PARAM.SFO: TITLE_ID plus optional other entries before/after it (any key order is legal)."""
    entries = []
    for i in range(extra_before):
        entries.append(("AAA_%02d" % i, b"v%d\x00" % i))
    if realistic:
        # the key set of a real disc (sorted; integer entries; TITLE right before TITLE_ID; values with room to spare)
        entries += [("APP_VER", b"01.00\x00", 0x0204, 8), ("ATTRIBUTE", struct.pack("<I", 0x25), 0x0404, 4), ("BOOTABLE", struct.pack("<I", 1), 0x0404, 4),
                    ("CATEGORY", b"DG\x00", 0x0204, 4), ("LICENSE", b"Library programs (c) Sony. " * 8 + b"\x00", 0x0204, 512),
                    ("PARENTAL_LEVEL", struct.pack("<I", 5), 0x0404, 4), ("PS3_SYSTEM_VER", b"03.4100\x00", 0x0204, 8),
                    ("RESOLUTION", struct.pack("<I", 63), 0x0404, 4), ("SOUND_FORMAT", struct.pack("<I", 279), 0x0404, 4),
                    ("TITLE", "Some Game: The Sequel\u2122".encode() + b"\x00", 0x0204, 128)]
        entries.append(("TITLE_ID", title_id.encode() + b"\x00", 0x0204, 16))
        entries.append(("VERSION", b"01.02\x00", 0x0204, 8))
    else:
        entries.append(("TITLE_ID", title_id.encode() + b"\x00"))
    for i in range(extra_after):
        entries.append(("ZZZ_%02d" % i, b"w%d\x00" % i))
    keys = b""
    data = b""
    idx = b""
    for e in entries:
        k, v = e[0], e[1]
        fmt = e[2] if len(e) > 2 else 0x0204
        koff, doff = len(keys), len(data)
        keys += k.encode() + b"\x00"
        vmax = e[3] if len(e) > 3 else (len(v) + 3) // 4 * 4
        data += v.ljust(vmax, b"\x00")
        idx += struct.pack("<HHIII", koff, fmt, len(v), vmax, doff)
    while len(keys) % 4:
        keys += b"\x00"
    key_start = 20 + len(idx)
    data_start = key_start + len(keys)
    raw = b"\x00PSF" + b"\x01\x01\x00\x00" + struct.pack("<III", key_start, data_start, len(entries)) + idx + keys + data
    n = srv.fnode(p, len(raw), cid="sfo_%s_%d_%d%s" % (title_id, extra_before, extra_after, "_r" if realistic else ""), mtime=mtime)
    n["raw"] = raw.hex()
    return n


def small_tree(rng, max_nodes=5, depth=3, sizes=(0, 1, 2047, 2048, 2049, 65535, 65536, 65537)):
    """Random tree under d/ with at most max_nodes entries."""
    nodes = [srv.dnode(["d"], 1500000000)]
    dirs = [["d"]]
    t = 1500000100
    for i in range(rng.randrange(0, max_nodes + 1)):
        par = rng.choice(dirs)
        t += 7
        if rng.random() < 0.35 and len(par) <= depth:
            p = par + ["dir%d" % i]
            nodes.append(srv.dnode(p, t))
            dirs.append(p)
        else:
            s = rng.choice(sizes)
            nodes.append(srv.fnode(par + [rng.choice(["File%d.BIN", "f%d.dat", "x_%d", "Mixed-%d.Ext"]) % i], s, cid="c%d_%d" % (i, s), mtime=t))
    return nodes


def wide_tree(rng, nfiles, ndirs, name_fmt="file%04d.bin"):
    nodes = [srv.dnode(["d"], 1500000000)]
    for i in range(ndirs):
        nodes.append(srv.dnode(["d", "sub%04d" % i], 1500000100 + i))
    for i in range(nfiles):
        s = rng.choice([0, 1, 100, 2048, 5000])
        nodes.append(srv.fnode(["d", name_fmt % i], s, cid="w%d_%d" % (i, s), mtime=1500001000 + i))
    return nodes


def deep_tree(rng, depth):
    nodes = [srv.dnode(["d"], 1500000000)]
    p = ["d"]
    for i in range(depth):
        p = p + ["L%d" % i]
        nodes.append(srv.dnode(p, 1500000100 + i))
        nodes.append(srv.fnode(p + ["leaf%d.bin" % i], rng.choice([0, 3, 2049]), cid="leaf%d" % i, mtime=1500000200 + i))
    return nodes


def big_file_tree(size, name="BIG.BIN"):
    nodes = [srv.dnode(["d"], 1500000000), srv.fnode(["d", "small.bin"], 2049, cid="small2049", mtime=1500000001)]
    nodes.append(srv.fnode(["d", name], size, cid="big_%d" % size, mtime=1500000002, islands=big_islands(size)))
    nodes.append(srv.fnode(["d", "after.bin"], 777, cid="after777", mtime=1500000003))
    return nodes


def ps3_tree(rng, title_id="BLES01234", extra_before=0, extra_after=0, realistic=False):
    t = 1500000000
    return [srv.dnode(["d"], t), srv.dnode(["d", "PS3_GAME"], t + 1), srv.dnode(["d", "PS3_GAME", "USRDIR"], t + 2),
            srv.fnode(["d", "PS3_GAME", "USRDIR", "EBOOT.BIN"], 70001, cid="eboot", mtime=t + 3),
            srv.fnode(["d", "PS3_GAME", "ICON0.PNG"], 2049, cid="icon", mtime=t + 4),
            param_sfo(["d", "PS3_GAME", "PARAM.SFO"], title_id, t + 6, extra_before, extra_after, realistic),
            srv.fnode(["d", "PS3_DISC.SFB"], 1536, cid="sfb", mtime=t + 7)]


def exact_fill_tree(target, joliet, with_subdir=True):
    """A directory whose records (in the primary or the Joliet hierarchy) add up to exactly `target` bytes:
    '.' and '..' are 34 each; a primary record is 33 + n (+1 if n even), a Joliet record 34 + 2n for an n-character name."""
    def rec(n):
        return 34 + 2 * n if joliet else 33 + n + (1 if n % 2 == 0 else 0)
    nodes = [srv.dnode(["d"], 1500000000), srv.dnode(["d", "X"], 1500000001)]
    cur = ["d", "X"]
    total = 68
    names = []
    if with_subdir:
        names.append(("S", True))
        total += rec(1)
    i = 0
    while target - total - rec(2) >= rec(1):
        names.append(("%s%s" % ("ABCDEFGHIJKLMNOPQRSTUVWXYZ"[i // 26], "abcdefghijklmnopqrstuvwxyz"[i % 26]), False))
        total += rec(2)
        i += 1
    rest = target - total
    n = 1
    while rec(n) < rest:
        n += 1
    if rec(n) == rest:
        names.append(("z" * n, False))
        total += rest
    for k, (nm, isdir) in enumerate(names):
        if isdir:
            nodes.append(srv.dnode(cur + [nm], 1500000100 + k))
            nodes.append(srv.fnode(cur + [nm, "in.bin"], 5, cid="xin", mtime=1500000200))
        else:
            nodes.append(srv.fnode(cur + [nm], 3, cid="x3", mtime=1500000300 + k))
    nodes.append(srv.dnode(["d", "Y"], 1500000002))
    nodes.append(srv.fnode(["d", "Y", "after.bin"], 2049, cid="yafter", mtime=1500000003))
    return nodes, total
