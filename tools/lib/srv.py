"""Drivers for the server-protocol family (C01 C02 C03 C05 C06 C12 C13 C17):
build session scripts (worlds + request sequences), run them through the Go
harness against the real server stack, have TLC validate the recorded traces
against spec/Ps3NetSrvTrace.tla.

The generators below only choose *inputs* (trees, paths, offsets, orders).
What the right answer is, is decided by TLC from the specification.
"""
import json
import os
import random

from common import (CheckError, run_harness, run_tlc, tlc_must_pass, validate_trace, read_ndjson, write_ndjson)

SECT = 2048


def pos(v):
    return [v // SECT, v % SECT]


def unpos(p):
    return p[0] * SECT + p[1]


def export_proto(specdir):
    res = run_tlc(specdir, "ExportProto.tla", "ExportProto.cfg", workers=1, timeout=120)
    tlc_must_pass(res, "ExportProto")
    p = os.path.join(specdir, "proto.json")
    if not os.path.exists(p):
        raise CheckError("proto.json was not exported")
    return p


# ------------------------------------------------------------------ worlds

def fnode(p, size, cid=None, mtime=None, marks=None, islands=None):
    cid = cid if cid is not None else ("f_" + "_".join(p))
    if size == 0:
        cid = ""
    n = {"p": list(p), "kind": "file", "size": pos(size), "cid": cid, "vcid": cid, "vsize": pos(size),
         "mtime": mtime or 0, "ctime": 0, "target": [], "marks": marks or [], "unk": False, "any": False}
    if islands is not None:
        n["islands"] = [[pos(o), pos(l)] for o, l in islands]
    return n


def dnode(p, mtime=None):
    return {"p": list(p), "kind": "dir", "size": pos(0), "cid": "", "vcid": "", "vsize": pos(0),
            "mtime": mtime or 0, "ctime": 0, "target": [], "marks": [], "unk": False, "any": False}


def lnode(p, target):
    return {"p": list(p), "kind": "link", "size": pos(0), "cid": "", "vcid": "", "vsize": pos(0),
            "mtime": 0, "ctime": 0, "target": list(target), "marks": [], "unk": False, "any": False}


BOUNDARY_SIZES = [0, 1, 2047, 2048, 2049, 65535, 65536, 65537, 200000]


def basic_world(rng, nfiles=6, with_links=True, big=False):
    """A small tree: nested dirs, boundary-size files, links (to file, to dir, dangling)."""
    t = 1400000000 + rng.randrange(0, 10**8)
    nodes = []
    dirs = [["a"], ["a", "sub"], ["empty"], ["b"]]
    for d in dirs:
        t += rng.randrange(1, 1000)
        nodes.append(dnode(d, t))
    sizes = rng.sample(BOUNDARY_SIZES, min(nfiles, len(BOUNDARY_SIZES)))
    if 0 not in sizes:
        sizes[0] = 0
    parents = [[], ["a"], ["a", "sub"], ["b"]]
    for i, s in enumerate(sizes):
        par = parents[i % len(parents)]
        t += rng.randrange(1, 1000)
        nodes.append(fnode(par + ["f%d.bin" % i], s, cid="src%d_%d" % (i, s), mtime=t))
    if with_links:
        files = [n for n in nodes if n["kind"] == "file"]
        nodes.append(lnode(["lnkfile"], rng.choice(files)["p"]))
        nodes.append(lnode(["a", "lnkdir"], ["b"]))
        nodes.append(lnode(["dangling"], ["nowhere"]))
    if big:
        size = 4 * 1024 ** 3 + 5
        isl = [(0, 8192), (2 ** 31 - 4096, 8192), (2 ** 32 - 4096, 8192), (size - 4096 - 5, 4096 + 5)]
        nodes.append(fnode(["big.bin"], size, cid="bigsparse", mtime=t + 5, islands=isl))
    return nodes


def all_paths(nodes):
    return [n["p"] for n in nodes]


def wire(p, rng=None, style=None):
    """Spell a normalised path as a wire string."""
    s = "/" + "/".join(p)
    if rng is None:
        return s
    style = style or rng.choice(["plain", "plain", "plain", "noslash", "dots", "dbl", "trail", "updown"])
    if style == "noslash":
        return "/".join(p)
    if style == "dots":
        return "/." + s
    if style == "dbl":
        return s.replace("/", "//")
    if style == "trail":
        return s + "/"
    if style == "updown" and p:
        return "/" + p[0] + "/../" + "/".join(p)
    return s


def read_points(size):
    pts = {0, 1, size - 1, size, size + 1, 2047, 2048, 2049, 65535, 65536, 65537, size // 2}
    return sorted(x for x in pts if x >= 0)


def random_session(rng, nodes, nreq=25, aw=True, views=(), cd=False):
    """A random request sequence over all 15 opcodes with arguments drawn around the world's structure."""
    paths = all_paths(nodes)
    files = [n for n in nodes if n["kind"] == "file"]
    dirs = [n for n in nodes if n["kind"] == "dir"]
    newnames = ["new1", "new2.bin", "up/x"]
    reqs = []
    cur_size = [0]
    chunk_no = [0]
    tag = "%06x" % rng.randrange(16 ** 6)

    def some_path():
        r = rng.random()
        if r < 0.55:
            return wire(rng.choice(paths), rng)
        if r < 0.7:
            d = rng.choice(dirs)["p"]
            return wire(d + [rng.choice(newnames).split("/")[0]], rng)
        if r < 0.8:
            return wire(rng.choice(paths) + ["nope"], rng)
        if r < 0.9 and views:
            v = rng.choice(list(views))
            return "/***%s***/%s" % ("DVD" if v["vk"] == "dvd" else "PS3", "/".join(v["p"]))
        return rng.choice(["/", "", "/..", "/../..", "/a/../../x", "/a/./sub/..", "//", "/CLOSEFILE", "/a/CLOSEFILE"])

    ops = ["STAT_FILE", "OPEN_DIR", "READ_DIR_ENTRY", "READ_DIR_ENTRY_V2", "READ_DIR", "OPEN_FILE", "READ_FILE",
           "READ_FILE_CRITICAL", "GET_DIR_SIZE", "CREATE_FILE", "WRITE_FILE", "DELETE_FILE", "MKDIR", "RMDIR"]
    weights = [10, 8, 10, 8, 5, 12, 14, 4, 4, 5, 7, 3, 3, 3]
    if cd:
        ops.append("READ_CD_2048")
        weights.append(8)
    for _ in range(nreq):
        op = rng.choices(ops, weights)[0]
        r = {"op": op}
        if op in ("STAT_FILE", "OPEN_DIR", "GET_DIR_SIZE", "DELETE_FILE", "MKDIR", "RMDIR", "CREATE_FILE"):
            r["path"] = some_path()
        elif op == "OPEN_FILE":
            if rng.random() < 0.7 and files:
                f = rng.choice(files)
                r["path"] = wire(f["p"], rng)
                cur_size[0] = unpos(f["size"])
            else:
                r["path"] = some_path()
        elif op in ("READ_FILE", "READ_FILE_CRITICAL"):
            pts = read_points(cur_size[0])
            off = rng.choice(pts)
            if op == "READ_FILE_CRITICAL" and rng.random() < 0.8:
                lim = rng.choice([0, 1, 512, 2048, max(0, cur_size[0] - off)])
                lim = min(lim, max(0, cur_size[0] - off))
            else:
                lim = rng.choice([0, 1, 2047, 2048, 2049, 65536, 65537, 100000, cur_size[0] + 7])
            r["limit"], r["off"] = lim, off
        elif op == "READ_CD_2048":
            r["start"], r["count"] = rng.choice([0, 1, 2, 7, 100]), rng.choice([0, 1, 2, 5])
        elif op == "WRITE_FILE":
            chunk_no[0] += 1
            r["plen"] = rng.choice([0, 1, 3, 100, 65535, 65536, 65537, 200000])
            r["chunk"] = "w%s_%d" % (tag, chunk_no[0])
        reqs.append(r)
    return reqs


# ------------------------------------------------------- run and validate

class SrvCtx:
    def __init__(self, scratch, harness, specdir, proto, sub="session", key="worlds", start_ev="World"):
        self.scratch, self.harness, self.specdir, self.proto = scratch, harness, specdir, proto
        self.batch = 0
        self.sub, self.key, self.start_ev = sub, key, start_ev


def split_worlds(lines, start_ev="World"):
    """Group trace lines by World event -> list of (world_index, [lines])."""
    groups = []
    for ln in lines:
        if ln.get("ev") == start_ev:
            if groups and start_ev == "World" and groups[-1][0] is not None and groups[-1][0] == ln.get("index"):
                groups[-1][1].append(ln)     # concurrent run: one World line per connection, same script world
            else:
                groups.append((ln.get("index"), [ln]))
        elif groups:
            groups[-1][1].append(ln)
    return groups


def run_script(ctx, worlds, tag):
    """Run worlds through the harness. Returns (trace lines, crash_info or None)."""
    sp = os.path.join(ctx.scratch, "script-%s.json" % tag)
    tp = os.path.join(ctx.scratch, "trace-%s.ndjson" % tag)
    with open(sp, "w") as f:
        json.dump({ctx.key: worlds}, f)
    args = [ctx.sub, "-script", sp, "-out", tp]
    if ctx.proto:
        args += ["-proto", ctx.proto]
    iso = os.path.join(ctx.specdir, "iso.json")
    if os.path.exists(iso):
        args += ["-iso", iso]
    p = run_harness(ctx.harness, args, timeout=3600, env={"TMPDIR": ctx.scratch})
    lines = read_ndjson(tp) if os.path.exists(tp) else []
    crash = None
    if p.returncode != 0:
        err = p.stderr
        if "WARNING: DATA RACE" in err:
            i = err.find("WARNING: DATA RACE")
            crash = "race: " + err[i:i + 3000]
        elif "panic:" in err or "fatal error:" in err or p.returncode < 0:
            crash = err[-3000:]
        else:
            raise CheckError("harness failed (rc=%d): %s" % (p.returncode, err[-2000:]))
    return lines, crash


def sig_of_line(ln):
    if ln is None:
        return "end-of-trace"
    ev = ln.get("ev")
    if ev == "Req":
        return "Req:%s:%s:%s" % (ln["req"].get("op"), ln["resp"].get("k"), "closed" if ln.get("closed") else "open")
    if ev == "Op":
        return "Op:%s:%s" % (ln.get("op"), ln.get("err"))
    if ev == "Open":
        return "Open:%s" % ("canon-failed" if ln.get("canon", "ok") != "ok" else ("size" if ln.get("opened") else "open-failed"))
    return str(ev)


def validate_lines(ctx, lines, module="Ps3NetSrvTrace.tla", cfg="TR_Ps3NetSrv.cfg"):
    tp = os.path.join(ctx.specdir, "trace.ndjson")
    write_ndjson(tp, lines)
    return validate_trace(ctx.specdir, module, cfg, tp, len(lines), timeout=1800)


def run_and_validate(ctx, worlds, report, max_rejections=12, module="Ps3NetSrvTrace.tla", cfg="TR_Ps3NetSrv.cfg"):
    """Run every world, let TLC judge every trace; rejected or crashing worlds are
    re-run alone to confirm and reported with a replay; the rest is still examined."""
    for i, w in enumerate(worlds):
        w.setdefault("name", "w%d" % i)
    ctx.batch += 1
    todo = list(range(len(worlds)))
    accepted_lines = 0
    rejections = 0
    traces = []
    # 1. run (a crash of the process hosting the real server is attributed to the world that was running)
    all_groups = {}
    remaining = list(todo)
    while remaining:
        lines, crash = run_script(ctx, [worlds[i] for i in remaining], "b%d-%d" % (ctx.batch, len(remaining)))
        groups = split_worlds(lines, ctx.start_ev)
        for k, (idx, g) in enumerate(groups):
            all_groups[remaining[k]] = g
        if crash is None:
            break
        bad = remaining[len(groups) - 1] if groups else remaining[0]
        # confirm on a fresh process
        _, crash2 = run_script(ctx, [worlds[bad]], "crash%d" % bad)
        if crash2 is not None:
            first = [l for l in crash2.splitlines() if l.startswith("panic:") or l.startswith("fatal error:")]
            if crash2.startswith("race:"):
                fr = [l.strip() for l in crash2.splitlines() if "ps3netsrv-go/" in l and "verifh" not in l]
                first = ["data race: " + (fr[0] if fr else "?")]
            where = [l.strip() for l in crash2.splitlines() if "/repo/" in l or "ps3netsrv-go/" in l][:3]
            report.violation(("race:" if crash2.startswith("race:") else "crash:") + (first[0][:120] if first else "process died"),
                             "the process hosting the real server died while running world %s\n%s\n%s" % (
                                 worlds[bad]["name"], "\n".join(first[:2]), "\n".join(where)),
                             {"script.json": {ctx.key: [worlds[bad]]}, "stderr.txt": crash2})
            rejections += 1
        all_groups.pop(bad, None)
        remaining = remaining[remaining.index(bad) + 1:]
        if rejections >= max_rejections:
            break
    # 2. validate (TLC stops at the first rejected event: the worlds before it are accepted, the rest is re-examined)
    order = [i for i in todo if i in all_groups]
    while order:
        lines = [ln for i in order for ln in all_groups[i]]
        v = validate_lines(ctx, lines, module, cfg)
        report.add_tlc(v.res)
        if v.accepted:
            accepted_lines += len(lines)
            traces += order
            break
        # find the world that holds the rejected line (line number hwm+1, 1-based)
        k = v.hwm
        acc = 0
        badw = None
        for i in order:
            n = len(all_groups[i])
            if k < acc + n:
                badw = i
                break
            acc += n
        if badw is None:
            raise CheckError("rejection outside any world (hwm=%d of %d)" % (v.hwm, len(lines)))
        rej_line = lines[k]
        last_ok = lines[k - 1] if k > 0 else None
        # confirm: fresh run of that world alone, validated alone
        l2, crash = run_script(ctx, [worlds[badw]], "confirm%d" % badw)
        confirmed = crash is not None
        v2 = None
        if not confirmed:
            v2 = validate_lines(ctx, l2, module, cfg)
            confirmed = not v2.accepted
        if confirmed:
            rl = rej_line
            if v2 is not None and v2.hwm < len(l2):
                rl = l2[v2.hwm]
            text = ("TLC rejects the recorded trace of world %r at event %d of %d: the specification has no "
                    "behaviour that explains this observation.\nrejected event: %s\nlast explained event: %s" % (
                        worlds[badw]["name"], k - acc + 1, len(all_groups[badw]),
                        json.dumps(rl)[:1500], json.dumps(last_ok)[:600]))
            sig = sig_of_line(rl)
            if rl is not None and rl.get("ev") == "Volume":
                import re
                out = (v2.res.out if v2 is not None else v.res.out)
                cl = set()
                for m in re.finditer(r'<<\s*"FAILED",\s*"%s",\s*\{(.*?)\}\s*>>' % re.escape(str(rl.get("name"))), out, re.S):
                    cl |= set(x.strip().strip('"') for x in m.group(1).split(","))
                sig = "Volume:" + "+".join(sorted(cl))
                text += "\nviolated clauses: " + ", ".join(sorted(cl))
            report.violation(sig, text, {"script.json": {ctx.key: [worlds[badw]]},
                                         "trace.ndjson": "\n".join(json.dumps(x) for x in all_groups[badw]),
                                         "tlc.out": v.res.out[-4000:]})
            rejections += 1
        else:
            report.notes.append("unreproduced rejection in world %s (not counted): %s | %s" % (
                worlds[badw]["name"], sig_of_line(rej_line), json.dumps(rej_line)[:700]))
        bi = order.index(badw)
        traces += order[:bi]
        accepted_lines += acc
        order = order[bi + 1:]
        if rejections >= max_rejections:
            report.notes.append("stopped after %d rejections; %d worlds unexamined" % (rejections, len(order)))
            break
    report.cov["traces_validated_against_impl"] += len(set(traces))
    report.cov["evaluations"] += accepted_lines
    return rejections


# ------------------------------------------- model -> code: TLC-generated sessions

def abstract_to_req(a):
    """Turn a request record printed by TLC into a script request."""
    r = {"op": a["op"]}
    od = a["op"]
    if a.get("path"):
        r["path"] = "/".join(a["path"])
    elif od in ("OPEN_DIR", "STAT_FILE", "OPEN_FILE", "GET_DIR_SIZE", "CREATE_FILE", "DELETE_FILE", "MKDIR", "RMDIR"):
        r["path"] = ""
    if od in ("READ_FILE", "READ_FILE_CRITICAL"):
        r["limit"], r["off"] = unpos(a["limit"]), unpos(a["off"])
    if od == "READ_CD_2048":
        r["start"], r["count"] = a["start"], a["count"]
    if od == "WRITE_FILE":
        r["plen"], r["chunk"] = a["plen"], a["chunk"]
    return r


def generate_sessions(specdir, module, cfg, overrides=None, timeout=900):
    """Run the TLC generator config; returns (world dict, list of request lists, TlcResult)."""
    cfgp = os.path.join(specdir, cfg)
    if overrides:
        txt = open(cfgp).read()
        for k, v in overrides.items():
            import re
            txt = re.sub(r"(?m)^(\s*%s\s*=\s*).*$" % re.escape(k), r"\g<1>%s" % v, txt)
        cfg = "gen_" + cfg
        with open(os.path.join(specdir, cfg), "w") as f:
            f.write(txt)
    res = run_tlc(specdir, module, cfg, workers=1, timeout=timeout, heap="8g", deadlock=False)
    tlc_must_pass(res, cfg)
    w = res.printed("WORLD")
    if not w:
        raise CheckError("generator printed no WORLD")
    world = json.loads(json.loads(w[-1]))
    cases = [json.loads(json.loads(c))["reqs"] for c in res.printed("CASE")]
    return world, cases, res


def model_nodes(world):
    nodes = []
    for n in world["nodes"]:
        if n["p"] == []:
            continue
        nodes.append(n)
    return nodes
