"""Shared machinery for the ps3netsrv-go TLA+ model-based checks.

Everything here is orchestration: build the Go conformance harness from /repo's
current working tree (go build -overlay, nothing is written into /repo), run
TLC on the modules in /verif/spec, validate recorded traces, write evidence.
No expected behaviour of ps3netsrv-go lives in this file.
"""
import json
import os
import re
import shutil
import subprocess
import sys
import tempfile
import time

VERIF = os.path.dirname(os.path.dirname(os.path.dirname(os.path.abspath(__file__))))
REPO = os.environ.get("VERIF_REPO", "/repo")
SPEC = os.path.join(VERIF, "spec")
HARNESS = os.path.join(VERIF, "harness")
EVIDENCE = os.environ.get("VERIF_EVIDENCE_DIR") or os.path.join(VERIF, "evidence")      # (the override keeps experiment runs from touching the committed evidence)
REPLAYS = os.path.join(VERIF, "replays")
KNOWN = os.path.join(VERIF, "KNOWN_FINDINGS.txt")
TLA_JAR = "/opt/veriftools/tla/tla2tools.jar:/opt/veriftools/tla/CommunityModules-deps.jar"
WORKERS = max(2, min(12, (os.cpu_count() or 4) - 2))

EXIT_OK, EXIT_VIOLATION, EXIT_ERROR = 0, 1, 2


class CheckError(Exception):
    """Machinery problem (build failure, TLC crash, timeout): exit 2, never a violation."""


def goenv():
    env = dict(os.environ)
    env.update(GOFLAGS="-mod=mod", GOPROXY="off", GOSUMDB="off", GOTOOLCHAIN="local",
               CGO_ENABLED=env.get("CGO_ENABLED", "1"))
    return env


class Scratch:
    """mktemp -d outside /repo and /verif, removed on exit."""

    def __init__(self, prefix="verif-"):
        self.prefix = prefix
        self.path = None

    def __enter__(self):
        base = os.environ.get("VERIF_TMP", tempfile.gettempdir())
        self.path = tempfile.mkdtemp(prefix=self.prefix, dir=base)
        return self.path

    def __exit__(self, *a):
        if os.environ.get("VERIF_KEEP"):
            print("scratch kept:", self.path, file=sys.stderr)
            return False
        shutil.rmtree(self.path, ignore_errors=True)
        return False


def sh(cmd, cwd=None, env=None, timeout=None, check=True, input=None):
    p = subprocess.run(cmd, cwd=cwd, env=env, timeout=timeout, input=input,
                       stdout=subprocess.PIPE, stderr=subprocess.PIPE, text=True)
    if check and p.returncode != 0:
        raise CheckError("command failed (%d): %s\n%s\n%s" % (p.returncode, " ".join(map(str, cmd)), p.stdout[-4000:], p.stderr[-4000:]))
    return p


# ---------------------------------------------------------------- Go harness

def build_harness(scratch, race=False, name="verifh"):
    """Compile /verif/harness/*.go as package /repo/internal/verifh via -overlay.

    Rebuilds from /repo's current working tree on every call.
    """
    ov = {"Replace": {}}
    for fn in sorted(os.listdir(HARNESS)):
        if fn.endswith(".go"):
            ov["Replace"][os.path.join(REPO, "internal", "verifh", fn)] = os.path.join(HARNESS, fn)
    ovp = os.path.join(scratch, "overlay.json")
    with open(ovp, "w") as f:
        json.dump(ov, f)
    out = os.path.join(scratch, name + ("-race" if race else ""))
    cmd = ["go", "build", "-overlay", ovp, "-tags", "verif", "-o", out]
    if race:
        cmd.append("-race")
    cmd.append("./internal/verifh")
    env = goenv()
    env["GOCACHE"] = os.environ.get("GOCACHE", os.path.expanduser("~/.cache/go-build"))
    try:
        p = subprocess.run(cmd, cwd=REPO, env=env, stdout=subprocess.PIPE, stderr=subprocess.PIPE, text=True, timeout=900)
    except subprocess.TimeoutExpired:
        raise CheckError("harness build timed out")
    if p.returncode != 0:
        raise CheckError("harness does not build against the current /repo tree:\n" + p.stderr[-6000:])
    return out


def build_binary(scratch, race=False):
    """go build ./cmd/ps3netsrv-go from the current tree."""
    out = os.path.join(scratch, "ps3netsrv-go" + ("-race" if race else ""))
    cmd = ["go", "build", "-tags", "verif", "-o", out]
    if race:
        cmd.append("-race")
    cmd.append("./cmd/ps3netsrv-go")
    p = subprocess.run(cmd, cwd=REPO, env=goenv(), stdout=subprocess.PIPE, stderr=subprocess.PIPE, text=True, timeout=900)
    if p.returncode != 0:
        raise CheckError("binary does not build:\n" + p.stderr[-6000:])
    return out


def run_harness(binary, args, stdin=None, timeout=600, env=None, cwd=None):
    e = dict(os.environ)
    if env:
        e.update(env)
    try:
        p = subprocess.run([binary] + args, input=stdin, stdout=subprocess.PIPE, stderr=subprocess.PIPE,
                           text=True, timeout=timeout, env=e, cwd=cwd)
    except subprocess.TimeoutExpired:
        raise CheckError("harness timed out: %s" % " ".join(args))
    return p


# ---------------------------------------------------------------------- TLC

class TlcResult:
    def __init__(self, rc, out, wall):
        self.rc = rc
        self.out = out
        self.wall = wall
        self.generated = 0
        self.distinct = 0
        self.depth = 0
        m = None
        for m in re.finditer(r"(\d+) states generated, (\d+) distinct states found", out):
            pass
        if m:
            self.generated, self.distinct = int(m.group(1)), int(m.group(2))
        m = re.search(r"The depth of the complete state graph search is (\d+)", out)
        if m:
            self.depth = int(m.group(1))
        self.violated = re.findall(r"Error: (Invariant \S+ is violated|Action property \S+ is violated|Temporal properties were violated|Deadlock reached|Assumption .* is false)", out)
        self.errors = [l for l in out.splitlines() if l.startswith("Error:")]
        self.ok = (rc == 0 and not self.errors)
        self.prints = []

    def printed(self, tag):
        """Values printed with PrintT(<<tag, x>>) -> list of raw strings."""
        res = []
        pat = re.compile(r'^<<"' + re.escape(tag) + r'", (.*)>>$')
        for l in self.out.splitlines():
            m = pat.match(l.strip())
            if m:
                res.append(m.group(1))
        return res

    def coverage_zero(self):
        """Actions/expressions never taken in a -coverage run: lines '<Name line ...>: 0:0' style."""
        z = []
        for l in self.out.splitlines():
            m = re.match(r"^<(\w+) line .* of module (\w+)>: (\d+):(\d+)$", l.strip())
            if m and m.group(3) == "0" and m.group(4) == "0":
                z.append(m.group(2) + "!" + m.group(1))
        return z

    def action_counts(self):
        d = {}
        for l in self.out.splitlines():
            m = re.match(r"^<(\w+) line .* of module (\w+)>: (\d+):(\d+)$", l.strip())
            if m:
                d[m.group(1)] = d.get(m.group(1), 0) + int(m.group(4))
        return d


def prepare_spec_dir(scratch, sub="spec"):
    d = os.path.join(scratch, sub)
    if os.path.exists(d):
        shutil.rmtree(d)
    shutil.copytree(SPEC, d)
    return d


def run_tlc(specdir, module, cfg, workers=1, extra=None, timeout=1800, heap="8g", deadlock=None, dfs=False, stack=None):
    """Run TLC on <module>.tla with <cfg> inside specdir (a scratch copy)."""
    meta = tempfile.mkdtemp(prefix="tlcmeta-", dir=os.path.dirname(specdir))
    jopts = ["-XX:+UseParallelGC", "-Xmx" + heap, "-Djava.io.tmpdir=" + os.path.dirname(specdir)]   # TLC unpacks its modules into java.io.tmpdir
    if stack:
        jopts.append("-Xss" + stack)
    if dfs:
        jopts.append("-Dtlc2.tool.queue.IStateQueue=StateDeque")
    cmd = ["java"] + jopts + ["-cp", TLA_JAR, "tlc2.TLC", "-workers", str(workers), "-metadir", meta,
                              "-config", cfg]
    if deadlock is False:
        cmd.append("-deadlock")
    if extra:
        cmd += extra
    cmd.append(module)
    t0 = time.time()
    try:
        p = subprocess.run(cmd, cwd=specdir, stdout=subprocess.PIPE, stderr=subprocess.STDOUT, text=True, timeout=timeout)
    except subprocess.TimeoutExpired as e:
        subprocess.run(["pkill", "-f", meta], check=False)
        raise CheckError("TLC timed out after %ds on %s/%s" % (timeout, module, cfg))
    finally:
        shutil.rmtree(meta, ignore_errors=True)
    return TlcResult(p.returncode, p.stdout, time.time() - t0)


def tlc_must_pass(res, what):
    if not res.ok:
        raise CheckError("TLC did not pass on %s (rc=%d):\n%s" % (what, res.rc, res.out[-5000:]))
    return res


# --------------------------------------------------------- trace validation

class TraceVerdict:
    def __init__(self, accepted, hwm, total, res):
        self.accepted = accepted
        self.hwm = hwm          # number of trace lines explained
        self.total = total
        self.res = res


def validate_trace(specdir, module, cfg, trace_path, total_lines, timeout=1800, heap="8g", dfs=False, extra_files=None):
    """TLC decides whether the ndjson trace is a behaviour of <module> (a *Trace spec).

    The trace spec reads 'trace.ndjson' from its working directory, prints
    <<"HWM", n>> (number of lines explained) from its POSTCONDITION, and fails
    the postcondition iff n < Len(Trace).
    """
    dst = os.path.join(specdir, "trace.ndjson")
    if os.path.abspath(trace_path) != os.path.abspath(dst):
        shutil.copyfile(trace_path, dst)
    for src, name in (extra_files or []):
        shutil.copyfile(src, os.path.join(specdir, name))
    res = run_tlc(specdir, module, cfg, workers=1, timeout=timeout, heap=heap, deadlock=False, dfs=dfs, stack="1g")
    h = res.printed("HWM")
    hwm = int(h[-1]) if h else -1
    bad = [e for e in res.errors if "Postcondition" not in e and "postcondition" not in e.lower()]
    if hwm < 0 or (bad and hwm >= total_lines):
        i = max(0, res.out.find("Error:"))
        raise CheckError("trace validation run broke (module %s):\n%s\n...\n%s" % (module, res.out[i:i + 1500], res.out[-800:]))
    # An evaluation error while explaining line hwm+1 is a rejection of that line
    # only if it is a postcondition/invariant failure; anything else is machinery.
    for e in bad:
        if "Invariant" in e or "Action property" in e:
            continue
        i = res.out.find("Error:")
        raise CheckError("TLC error during trace validation (module %s):\n%s\n...\n%s" % (module, res.out[i:i + 1500], res.out[-800:]))
    return TraceVerdict(hwm >= total_lines and not bad, hwm, total_lines, res)


# ---------------------------------------------------------------- findings

def load_known(prop):
    """finding: property=<id> sig=<signature> :: text   /   fixed: property=<id> <commit> text"""
    out = []
    if not os.path.exists(KNOWN):
        return out
    for l in open(KNOWN):
        l = l.strip()
        m = re.match(r"^finding:\s+property=(\S+)\s+sig=(\S+)\s+::\s+(.*)$", l)
        if m and m.group(1) == prop:
            out.append((m.group(2), m.group(3)))
    return out


class Report:
    """Collects violations / known findings / evidence for one check run."""

    def __init__(self, prop, tier, seed, level):
        self.prop, self.tier, self.seed, self.level = prop, tier, seed, level
        self.t0 = time.time()
        self.violations = []   # (signature, text, replay_path)
        self.known_hit = []
        self.cov = {"states": 0, "transitions": 0, "traces_validated_against_impl": 0,
                    "evaluations": 0, "distinct_nontrivial": 0, "samples": [], "rule": "", "exhaustive": False}
        self.assumptions = []
        self.known = load_known(prop)
        self.notes = []
        self.layout = {}

    def add_tlc(self, res):
        self.cov["states"] += res.distinct
        self.cov["transitions"] += res.generated
        # generated images: does the real image also follow the reference layout of spec/IsoLayout.tla?  (reported, not a verdict)
        for m in re.finditer(r'<<\s*"LAYOUT",\s*"((?:[^"\\]|\\.)*)",\s*"(same|differs|n/a|skipped)"\s*>>', res.out):
            self.layout[m.group(1)] = m.group(2)

    def violation(self, sig, text, replay_files=None):
        for ksig, ktext in self.known:
            if ksig == sig:
                if (ksig, ktext) not in self.known_hit:
                    self.known_hit.append((ksig, ktext))
                return
        path = self.save_replay(sig, text, replay_files or {})
        self.violations.append((sig, text, path))

    def save_replay(self, sig, text, files):
        stamp = time.strftime("%Y%m%d-%H%M%S") + "-%d" % (len(self.violations))
        d = os.path.join(REPLAYS, self.prop, stamp)
        os.makedirs(d, exist_ok=True)
        with open(os.path.join(d, "README.txt"), "w") as f:
            f.write("property=%s\nsignature=%s\nseed=%d tier=%s\n\n%s\n" % (self.prop, sig, self.seed, self.tier, text))
        for name, content in files.items():
            p = os.path.join(d, name)
            if isinstance(content, (dict, list)):
                with open(p, "w") as f:
                    json.dump(content, f, indent=1)
            elif isinstance(content, bytes):
                with open(p, "wb") as f:
                    f.write(content)
            elif os.path.exists(str(content)) and len(str(content)) < 4096 and "\n" not in str(content):
                shutil.copyfile(content, p)
            else:
                with open(p, "w") as f:
                    f.write(str(content))
        return d

    def finish(self):
        wall = time.time() - self.t0
        ev = {
            "property_id": self.prop, "tier": self.tier, "seed": self.seed, "level": self.level,
            "coverage": self.cov, "assumptions": self.assumptions, "wall_s": round(wall, 2),
            "violations": len(self.violations),
        }
        if self.layout:
            cnt = {}
            for v in self.layout.values():
                cnt[v] = cnt.get(v, 0) + 1
            ev["coverage"]["reference_layout_conformance"] = dict(cnt, differing=sorted(k for k, v in self.layout.items() if v == "differs")[:20])
        if self.notes:
            ev["coverage"]["notes"] = self.notes
        if self.known_hit:
            ev["coverage"]["known_findings_seen"] = [s for s, _ in self.known_hit]
        os.makedirs(EVIDENCE, exist_ok=True)
        with open(os.path.join(EVIDENCE, self.prop + ".json"), "w") as f:
            json.dump(ev, f, indent=1, sort_keys=True)
            f.write("\n")
        for sig, text in self.known_hit:
            print("KNOWN-FINDING: property=%s %s (%s)" % (self.prop, text, sig))
        for sig, text, path in self.violations:
            print("VIOLATION property=%s replay=%s" % (self.prop, path))
            print("  signature: %s" % sig)
            print("  " + text.replace("\n", "\n  ")[:3000])
        print("%s %s tier=%s seed=%d: %s in %.1fs (states=%d transitions=%d traces=%d evaluations=%d)" % (
            "FAIL" if self.violations else "PASS", self.prop, self.tier, self.seed,
            "%d violation(s)" % len(self.violations) if self.violations else "held",
            wall, self.cov["states"], self.cov["transitions"], self.cov["traces_validated_against_impl"], self.cov["evaluations"]))
        return EXIT_VIOLATION if self.violations else EXIT_OK


def seed_from_env():
    try:
        return int(os.environ.get("VERIF_SEED", "1"))
    except ValueError:
        return 1


def read_ndjson(path):
    out = []
    with open(path) as f:
        for l in f:
            l = l.strip()
            if l:
                out.append(json.loads(l))
    return out


def write_ndjson(path, rows):
    with open(path, "w") as f:
        for r in rows:
            f.write(json.dumps(r, separators=(",", ":")) + "\n")
