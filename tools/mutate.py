#!/usr/bin/env python3
"""mutate.py <outdir> <k> <seed-id> <prop> <demo-dest-dir> [--checks C03,C05] [--tier quick]

Confirm a seeded change delivered by a sub-agent (patchK.diff + demoK_test.go) in a scratch worktree, then apply it to /repo,
run the given checks, undo it, and record everything under /verif/seeded/<seed-id>/.
"""
import argparse
import json
import os
import re
import shutil
import subprocess
import sys
import time

HERE = os.path.dirname(os.path.abspath(__file__))
sys.path.insert(0, os.path.join(HERE, "lib"))
import common  # noqa: E402

REPO = "/repo"
BASE = ["go", "test", "-vet=off", "-count=1", "-run", "TestSFO|TestParseIPRange|TestINIBasic", "./..."]


def sh(cmd, cwd, timeout=1800):
    p = subprocess.run(cmd, cwd=cwd, env=common.goenv(), stdout=subprocess.PIPE, stderr=subprocess.STDOUT, text=True, timeout=timeout)
    return p.returncode, p.stdout


def main():
    ap = argparse.ArgumentParser()
    ap.add_argument("outdir")
    ap.add_argument("k")
    ap.add_argument("seed_id")
    ap.add_argument("prop")
    ap.add_argument("dest")
    ap.add_argument("--checks", default=None)
    ap.add_argument("--tier", default="quick")
    ap.add_argument("--needs", default="")
    a = ap.parse_args()
    patch = os.path.join(a.outdir, "patch%s.diff" % a.k)
    demo = os.path.join(a.outdir, "demo%s_test.go" % a.k)
    note = os.path.join(a.outdir, "note%s.md" % a.k)
    checks = (a.checks or a.prop).split(",")
    ran = []
    st = subprocess.run(["git", "-C", REPO, "status", "--porcelain"], stdout=subprocess.PIPE, text=True).stdout.strip()
    if st:
        print("refusing: /repo is not clean:\n" + st)
        return 2
    wt = "/tmp/mutconfirm-%s" % a.seed_id
    subprocess.run(["git", "-C", REPO, "worktree", "remove", "--force", wt], stdout=subprocess.DEVNULL, stderr=subprocess.DEVNULL)
    subprocess.run(["git", "-C", REPO, "worktree", "add", "--detach", wt, "HEAD"], check=True, stdout=subprocess.DEVNULL, stderr=subprocess.DEVNULL)
    meta = {"property": a.prop, "seed_id": a.seed_id, "base_commit": subprocess.run(["git", "-C", REPO, "rev-parse", "--short", "HEAD"], stdout=subprocess.PIPE, text=True).stdout.strip(),
            "needs_to_manifest": a.needs, "ran": ran}
    try:
        rc, out = sh(["git", "apply", "--3way", patch], wt)
        if rc != 0:
            rc, out = sh(["git", "apply", patch], wt)
        if rc != 0:
            print("patch does not apply to HEAD:\n" + out)
            return 2
        subprocess.run(["git", "reset", "-q"], cwd=wt)
        diff = subprocess.run(["git", "diff"], cwd=wt, stdout=subprocess.PIPE, text=True).stdout
        rc, out = sh(["go", "build", "./..."], wt)
        ran.append({"cmd": "go build ./... (patched)", "rc": rc})
        if rc != 0:
            print("patched tree does not build:\n" + out[-2000:])
            return 2
        rc, out = sh(BASE, wt)
        ran.append({"cmd": " ".join(BASE) + " (patched)", "rc": rc})
        if rc != 0:
            print("existing tests fail with the patch:\n" + out[-2000:])
            return 2
        dst = os.path.join(wt, a.dest, "zz_demo%s_test.go" % a.k)
        shutil.copyfile(demo, dst)
        SKIP = ["-skip", "TestMakeFullImage|TestMountISO"]   # always failing here, and they leave 4 GiB files in /tmp
        rc, out = sh(["go", "test", "-vet=off", "-count=1"] + SKIP + ["./" + a.dest + "/"], wt)
        ran.append({"cmd": "go test -skip 'TestMakeFullImage|TestMountISO' ./%s/ with demo (patched)" % a.dest, "rc": rc, "tail": out[-600:]})
        demo_fails = rc != 0
        sh(["git", "checkout", "--", "."], wt)
        rc, out = sh(["go", "test", "-vet=off", "-count=1"] + SKIP + ["./" + a.dest + "/"], wt)
        # the package may contain always-failing baseline tests (pkg/fs): only the demo's own tests matter there
        ran.append({"cmd": "go test ./%s/ with demo (unpatched)" % a.dest, "rc": rc, "tail": out[-400:]})
        demo_passes = rc == 0 or ("TestMakeFullImage" in out and "--- FAIL: TestDemo" not in out and "--- FAIL: TestC0" not in out)
        os.remove(dst)
        meta["demo_fails_with_patch"] = demo_fails
        meta["demo_passes_without_patch"] = demo_passes
        if not (demo_fails and demo_passes):
            print("NOT CONFIRMED: demo_fails_with_patch=%s demo_passes_without_patch=%s" % (demo_fails, demo_passes))
            print(out[-1500:])
    finally:
        subprocess.run(["git", "-C", REPO, "worktree", "remove", "--force", wt], stdout=subprocess.DEVNULL, stderr=subprocess.DEVNULL)
    # run my checks against /repo with the change applied
    results = {}
    sd = os.path.join(common.VERIF, "seeded", a.seed_id)
    os.makedirs(sd, exist_ok=True)
    with open(os.path.join(sd, "patch.diff"), "w") as f:
        f.write(diff)
    rc, out = sh(["git", "apply", os.path.join(sd, "patch.diff")], REPO)
    if rc != 0:
        print("cannot apply to /repo: " + out)
        return 2
    try:
        for c in checks:
            t0 = time.time()
            p = subprocess.run([sys.executable, os.path.join(HERE, "check.py"), c, "--tier", a.tier], cwd=common.VERIF,
                               stdout=subprocess.PIPE, stderr=subprocess.STDOUT, text=True, timeout=7200)
            sigs = re.findall(r"signature: (.*)", p.stdout)
            results[c] = {"rc": p.returncode, "violations": len(re.findall(r"^VIOLATION ", p.stdout, re.M)), "signatures": sorted(set(sigs))[:6],
                          "wall_s": round(time.time() - t0, 1)}
            print("check %s tier=%s -> rc=%d violations=%d %s" % (c, a.tier, p.returncode, results[c]["violations"], results[c]["signatures"][:3]))
    finally:
        subprocess.run(["git", "-C", REPO, "checkout", "--", "."])
        subprocess.run(["git", "-C", REPO, "clean", "-fdq"])
    meta["checks"] = results
    meta["caught"] = any(r["rc"] == 1 for r in results.values())
    shutil.copyfile(demo, os.path.join(sd, "demo_test.go"))
    if os.path.exists(note):
        shutil.copyfile(note, os.path.join(sd, "note.md"))
    meta["demo_location"] = a.dest + "/demo_test.go"
    with open(os.path.join(sd, "meta.json"), "w") as f:
        json.dump(meta, f, indent=1)
    # evidence files were rewritten by the mutated runs: the caller re-runs the checks on the clean tree
    print("caught" if meta["caught"] else "MISSED", a.seed_id)
    return 0


if __name__ == "__main__":
    sys.exit(main())
