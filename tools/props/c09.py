"""C09 generated ISO reads are position-independent (one fixed byte string)."""
import itertools
import json
import os
import random

import common
import srv

SIZES = [0, 1, 2047, 2048, 2049, 4096, 5000]


def tree(rng, nfiles, sizes=None, nested=True):
    """A small directory `d` with nfiles files of boundary sizes (and an optional sub-directory)."""
    nodes = [srv.dnode(["d"], 1500000000)]
    if nested:
        nodes.append(srv.dnode(["d", "sub"], 1500000100))
    for i in range(nfiles):
        s = sizes[i] if sizes else rng.choice(SIZES)
        par = ["d", "sub"] if nested and i % 3 == 2 else ["d"]
        nodes.append(srv.fnode(par + ["f%d.bin" % i], s, cid="m%d_%d" % (i, s), mtime=1500000200 + i))
    return nodes


def boundary_ops(bounds, total, full):
    """All ReadAt(off, n) with off and off+n drawn from the structural boundaries +-1 (and a bit beyond the end)."""
    pts = set()
    for b in bounds:
        for d in (-1, 0, 1):
            if 0 <= b + d <= total + 1:
                pts.add(b + d)
    pts |= {total + 1, total + 5}
    pts = sorted(pts)
    ops = []
    for a in pts:
        for b in pts:
            if b > a:
                ops.append({"op": "readat", "off": a, "n": b - a})
        for n in ([1, 512, 2048, 65536] if full else [1, 2048]):
            ops.append({"op": "readat", "off": a, "n": n})
    return ops, pts


def seek_read_ops(pts, total, rng, count):
    ops = []
    for _ in range(count):
        a = rng.choice(pts)
        wh = rng.choice([0, 1, 2])
        if wh == 0:
            ops.append({"op": "seek", "off": a, "whence": 0})
        elif wh == 2:
            ops.append({"op": "seek", "off": a - total, "whence": 2})
        else:
            ops.append({"op": "seek", "off": rng.choice([-2049, -1, 0, 1, 2048, 5000]), "whence": 1})
        b = rng.choice(pts)
        ops.append({"op": "read", "n": max(1, abs(b - a)) if rng.random() < 0.7 else rng.choice([1, 100, 2048, 70000])})
        if rng.random() < 0.3:
            ops.append({"op": "read", "n": rng.choice([1, 511, 2048, 4097])})
    ops.append({"op": "seek", "off": -1, "whence": 0})
    ops.append({"op": "seek", "off": 0, "whence": 2})
    ops.append({"op": "read", "n": 10})
    ops.append({"op": "seek", "off": -1, "whence": 2})
    ops.append({"op": "read", "n": 10})
    ops.append({"op": "seek", "off": 3, "whence": 7})
    return ops


def mixed_ops(pts, total, rng, count):
    """Positional and cursor calls interleaved on one instance: a ReadAt - inside, across the end, at or past the end, with an
    empty buffer - must leave the cursor where the Reads and Seeks put it."""
    ops = [{"op": "seek", "off": rng.choice(pts), "whence": 0}]
    for _ in range(count):
        r = rng.random()
        if r < 0.45:
            kind = rng.random()
            if kind < 0.35:
                off, n = rng.choice(pts), rng.choice([1, 100, 2048, 5000])
            elif kind < 0.6:
                off, n = rng.choice([total, total + 1, total + 4096, total + 70000]), rng.choice([1, 2048])
            elif kind < 0.75:
                off, n = rng.choice(pts), 0
            elif kind < 0.9:
                off, n = max(0, total - rng.choice([1, 10, 2048])), 4096      # crosses the end
            else:
                off, n = 0, 64
            ops.append({"op": "readat", "off": off, "n": n})
        elif r < 0.8:
            ops.append({"op": "read", "n": rng.choice([1, 7, 512, 2048, 4097])})
        else:
            a = rng.choice(pts)
            ops.append(rng.choice([{"op": "seek", "off": a, "whence": 0}, {"op": "seek", "off": a - total, "whence": 2},
                                   {"op": "seek", "off": rng.choice([-2048, -1, 0, 1, 2048]), "whence": 1}]))
    return ops


def run(tier, seed, replay=None):
    rep = common.Report("C09", tier, seed, "model_checking")
    rng = random.Random(seed * 104729 + 9)
    with common.Scratch("c09-") as scratch:
        harness = common.build_harness(scratch)
        specdir = common.prepare_spec_dir(scratch)
        srv.export_proto(specdir)
        ctx = srv.SrvCtx(scratch, harness, specdir, None, sub="viso", key="cases", start_ev="Open")
        mod, cfg = "IsoCursorTrace.tla", "TR_IsoCursor.cfg"
        if replay:
            cases = json.load(open(os.path.join(replay, "script.json")))["cases"]
            srv.run_and_validate(ctx, cases, rep, module=mod, cfg=cfg)
            rep.cov["samples"] = [c["name"] for c in cases]
            return rep.finish()

        # trees: all multisets of boundary sizes for 1..2 files (+ random 3..4-file trees)
        trees = []
        small = [0, 1, 2047, 2048, 2049]
        for s in small:
            trees.append(("one-%d" % s, tree(rng, 1, [s], nested=False)))
        pairs = list(itertools.product(small, small))
        if tier == "quick":
            pairs = rng.sample(pairs, 8)
        for a, b in pairs:
            trees.append(("two-%d-%d" % (a, b), tree(rng, 2, [a, b], nested=False)))
        for i in range(4 if tier == "quick" else 40):
            k = rng.choice([3, 4])
            trees.append(("rnd%d" % i, tree(rng, k, None, nested=True)))
        trees.append(("emptydir", [srv.dnode(["d"], 1500000000)]))

        # phase 1: open each image, learn its structural boundaries
        probe = [{"name": n, "nodes": t, "dir": ["d"], "ops": []} for n, t in trees]
        lines, crash = srv.run_script(ctx, probe, "probe")
        if crash:
            rep.violation("crash:probe", "opening/reading an image sequentially crashed the process\n" + crash[-1500:],
                          {"script.json": {"cases": probe}})
            return rep.finish()
        opens = [l for l in lines if l["ev"] == "Open"]
        cases = []
        nops = 0
        sampled = 0
        for (name, t), o in zip(trees, opens):
            if not o.get("opened") or o.get("canon") != "ok":
                cases.append({"name": name, "nodes": t, "dir": ["d"], "ops": []})   # TLC will reject the Open event
                continue
            total = srv.unpos(o["total"])
            ops, pts = boundary_ops(o["bounds"], total, tier != "quick")
            cap = 1200 if tier == "quick" else 8000
            if len(ops) > cap:
                ops = rng.sample(ops, cap)
                sampled += 1
            cases.append({"name": name + "-readat", "nodes": t, "dir": ["d"], "ops": ops, "fresh": False})
            sr = seek_read_ops(pts, total, rng, 60 if tier == "quick" else 400)
            cases.append({"name": name + "-seekread", "nodes": t, "dir": ["d"], "ops": sr})
            cases.append({"name": name + "-mixed", "nodes": t, "dir": ["d"], "ops": mixed_ops(pts, total, rng, 80 if tier == "quick" else 400)})
            # the same through OsFs + absolute path, as make-iso opens it
            cases.append({"name": name + "-osfs", "nodes": t, "dir": ["d"], "osfs": True, "ops": sr[:40]})
            nops += len(ops) + len(sr) + 40 + len(cases[-2]["ops"])
        B = 36      # cases per batch: bounds the size of one script / one trace
        for b in range(0, len(cases), B):
            srv.run_and_validate(ctx, cases[b:b + B], rep, module=mod, cfg=cfg, max_rejections=20)
            if len(rep.violations) >= 20:
                break
        rep.cov["rule"] = ("trees of <=4 files with boundary sizes; every ReadAt(off, n) with off and off+n in structural "
                           "boundaries +-1 (from the image itself; at most 1200 / 8000 per tree, sampled beyond that), seeded Seek/Read sequences, and "
                           "seeded interleavings of ReadAt (inside, across, at and past the end, empty) with Read and Seek; distinct_nontrivial = "
                           "accepted cases (tree x op list)")
        rep.cov["distinct_nontrivial"] = rep.cov["traces_validated_against_impl"]
        rep.cov["operations"] = nops
        rep.cov["exhaustive"] = sampled == 0
        rep.cov["trees_with_sampled_readat_pairs"] = sampled
        rep.cov["samples"] = [{"tree": cases[1]["name"], "ops": cases[1]["ops"][:5]}] if len(cases) > 1 else []
        rep.assumptions += ["canonical image = one sequential Read with a 1 MiB buffer on a separate instance"]
    return rep.finish()
