"""C15 admission control: whitelist and client limit are enforced, capacity recovers."""
import concurrent.futures
import ipaddress
import json
import os
import random
import time

import binsrv
import common
import srv
from props import c14

SETTLE = 0.45      # how long a socket must stay silent to be called "pending"
SERVED_WAIT = 3.0


def whitelist_specs():
    """(flag text, structured spec as in C14)"""
    return [
        (None, {"kind": "none"}),
        ("127.0.0.2", c14.spec("single", 4, "127.0.0.2")),
        ("127.0.0.2-127.0.0.4", c14.spec("range", 4, "127.0.0.2", "127.0.0.4")),
        ("127.0.0.0/29", c14.spec("cidr", 4, "127.0.0.0", p=29)),
        ("127.0.0.9/30", c14.spec("cidr", 4, "127.0.0.9", p=30)),
        ("127.0.0.8/255.255.255.252", c14.spec("mask", 4, "127.0.0.8", mask="255.255.255.252")),
        ("127.0.0.4/31", c14.spec("cidr", 4, "127.0.0.4", p=31)),
        ("::ffff:127.0.0.3", c14.spec("single", 6, "::ffff:127.0.0.3")),
        ("::1", c14.spec("single", 6, "::1")),
        ("127.0.0.0/8", c14.spec("cidr", 4, "127.0.0.0", p=8)),
        ("127.0.0.200-127.0.1.10", c14.spec("range", 4, "127.0.0.200", "127.0.1.10")),
        ("127.0.0.0/16", c14.spec("cidr", 4, "127.0.0.0", p=16)),
    ]


class Scenario:
    def __init__(self, name, limit, wl, rng, nclients):
        self.name, self.limit, self.wl_text, self.wl_spec = name, limit, wl[0], wl[1]
        self.rng, self.nclients = rng, nclients
        self.events = []
        self.error = None


def observe(cl, proto, events, cid, sent):
    """Classify what the socket shows: a (complete) response, a close without bytes, or silence."""
    if not sent:
        return
    want = proto.fixed_len("STAT_FILE")
    st, data = cl.poll(SETTLE)
    if st == "silent":
        events.append({"ev": "Observe", "c": cid, "outcome": "pending"})
        return "pending"
    if st == "closed":
        events.append({"ev": "Observe", "c": cid, "outcome": "closed", "bytes": 0})
        return "closed"
    b, s2 = cl.recv_exact(want, SERVED_WAIT)
    if s2 == "ok":
        events.append({"ev": "Observe", "c": cid, "outcome": "served"})
        return "served"
    events.append({"ev": "Observe", "c": cid, "outcome": "garbage:%s:%d" % (s2, len(b))})
    return "garbage"


def run_scenario(binary, proto, root, sc):
    args = ["server", "--root", root, "--listen-addr", "127.0.0.1:0", "--json-log", "--read-timeout", "60s"]
    if sc.limit > 0:
        args += ["--max-clients", str(sc.limit)]
    if sc.wl_text:
        args += ["--client-whitelist", sc.wl_text]
    srvp = binsrv.Server(binary, args)
    try:
        if not srvp.addr:
            sc.error = "server did not start: %s" % "\n".join(srvp.lines[-5:] + srvp.err[-5:])
            return sc
        ev = sc.events
        ev.append({"ev": "Config", "limit": sc.limit, "whitelist": sc.wl_spec, "name": sc.name})
        rng = sc.rng
        stat = proto.encode("STAT_FILE", path="/")
        clients = {}      # cid -> (Client, state)
        cid = 0
        srcs = ["127.0.0.%d" % k for k in range(1, 13)] + ["127.0.0.250", "127.0.0.255", "127.0.1.0", "127.0.1.5", "127.0.1.11", "127.3.7.0", "127.255.255.254"]

        def connect():
            nonlocal cid
            cid += 1
            src = rng.choice(srcs)
            c = binsrv.Client(srvp.addr, src=src)
            sent = c.send(stat)
            ev.append({"ev": "Connect", "c": cid, "ip": list(ipaddress.ip_address(src).packed), "src": src})
            clients[cid] = [c, observe(c, proto, ev, cid, True)]

        def reobserve():
            time.sleep(0.05)
            for k, (c, stt) in list(clients.items()):
                if stt == "pending":
                    clients[k][1] = observe(c, proto, ev, k, True)

        def close(k):
            c, stt = clients.pop(k)
            c.close(reset=rng.random() < 0.3)
            ev.append({"ev": "Close", "c": k})

        for _ in range(sc.nclients):
            if clients and rng.random() < 0.35:
                close(rng.choice(list(clients)))
                reobserve()
            else:
                connect()
            if cid >= 38:
                break
        # capacity must recover: everybody leaves, then N (or 3) fresh clients from allowed addresses are all served
        for k in list(clients):
            close(k)
        time.sleep(0.1)
        for _ in range(sc.limit if sc.limit > 0 else 3):
            if cid >= 40:
                break
            connect()
        for k in list(clients):
            close(k)
        crashed, txt = srvp.crashed()
        if crashed or not srvp.alive():
            sc.error = "server died: " + txt[-500:]
    except OSError as e:
        sc.error = "driver socket error: %r" % (e,)
    finally:
        srvp.stop()
    return sc


def run(tier, seed, replay=None):
    rep = common.Report("C15", tier, seed, "model_checking")
    rng = random.Random(seed * 920419823 + 15)
    full = tier != "quick"
    with common.Scratch("c15-") as scratch:
        binary = common.build_binary(scratch)
        specdir = common.prepare_spec_dir(scratch)
        proto = binsrv.Proto(srv.export_proto(specdir))
        for cfg in ("MC_Admission.cfg", "MC_Admission1.cfg"):
            res = common.run_tlc(specdir, "Admission.tla", cfg, workers=4, timeout=900)
            common.tlc_must_pass(res, cfg)
            rep.add_tlc(res)
        root = os.path.join(scratch, "root")
        os.makedirs(root)
        open(os.path.join(root, "marker.txt"), "w").write("x")
        scen = []
        wls = whitelist_specs()
        limits = [0, 1, 2, 3] if not full else [0, 1, 2, 3, 4, 5, 6, 7, 8]
        k = 0
        for limit in limits:
            for wl in (rng.sample(wls, 3) if not full else wls):
                for rep_i in range(1 if not full else 3):
                    k += 1
                    scen.append(Scenario("adm-%d" % k, limit, wl, random.Random(rng.random()), 4 * limit + 6 if limit else 10))
        if replay:
            saved = json.load(open(os.path.join(replay, "scenario.json")))
            scen = [Scenario(saved["name"], saved["limit"], (saved["wl_text"], saved["wl_spec"]), random.Random(saved["rseed"]), saved["nclients"])]
        for s in scen:
            s.rseed = rng.random()
            s.rng = random.Random(s.rseed)

        def judge(batch):
            lines = [e for s in batch for e in s.events]
            tp = os.path.join(specdir, "trace.ndjson")
            common.write_ndjson(tp, lines)
            return common.validate_trace(specdir, "AdmissionTrace.tla", "TR_Admission.cfg", tp, len(lines), timeout=900), lines

        with concurrent.futures.ThreadPoolExecutor(max_workers=8) as ex:
            done = list(ex.map(lambda s: run_scenario(binary, proto, root, s), scen))
        broken = [s for s in done if s.error]
        if len(broken) > len(done) // 3:
            raise common.CheckError("driver/servers failed in %d of %d scenarios: %s" % (len(broken), len(done), broken[0].error))
        todo = [s for s in done if not s.error]
        while todo:
            v, lines = judge(todo)
            rep.add_tlc(v.res)
            if v.accepted:
                rep.cov["traces_validated_against_impl"] += len(todo)
                rep.cov["evaluations"] += len(lines)
                break
            # which scenario holds the rejected line
            acc = 0
            bad = None
            for s in todo:
                if v.hwm < acc + len(s.events):
                    bad = s
                    break
                acc += len(s.events)
            rej = lines[v.hwm]
            # timing-dependent: reproduce 2 of 3 on fresh servers
            again = 0
            for _ in range(3):
                s2 = Scenario(bad.name, bad.limit, (bad.wl_text, bad.wl_spec), random.Random(bad.rseed), bad.nclients)
                run_scenario(binary, proto, root, s2)
                if s2.error:
                    continue
                v2, _ = judge([s2])
                if not v2.accepted:
                    again += 1
            if again >= 2:
                rep.violation("Admission:%s:%s" % (rej.get("ev"), rej.get("outcome", "")),
                              "TLC rejects the admission trace of scenario %s (limit=%d whitelist=%s) at event %d: %s\nprevious events: %s" % (
                                  bad.name, bad.limit, bad.wl_text, v.hwm - acc + 1, json.dumps(rej), json.dumps(bad.events[max(0, v.hwm - acc - 6):v.hwm - acc])),
                              {"scenario.json": {"name": bad.name, "limit": bad.limit, "wl_text": bad.wl_text, "wl_spec": bad.wl_spec, "rseed": bad.rseed,
                                                 "nclients": bad.nclients}, "trace.ndjson": "\n".join(json.dumps(e) for e in bad.events)})
            else:
                rep.notes.append("unreproduced rejection in %s (timing), not counted" % bad.name)
            i = todo.index(bad)
            rep.cov["traces_validated_against_impl"] += i
            todo = todo[i + 1:]
            if len(rep.violations) >= 6:
                break
        rep.cov["rule"] = ("real binary with --max-clients N (0..%d) x --client-whitelist W (single / range / CIDR / netmask / IPv4-mapped / none) "
                           "x seeded arrival/departure orders of up to 4N+6 clients bound to 127.0.0.1..12; sequential driver with a settle time of %.2fs; "
                           "final phase: all leave, N fresh allowed clients must all be served; distinct_nontrivial = scenarios accepted" % (limits[-1], SETTLE))
        rep.cov["distinct_nontrivial"] = rep.cov["traces_validated_against_impl"]
        rep.cov["samples"] = [done[0].events[:6]]
        rep.assumptions += ["observations are taken after a settle time; a rejected trace counts only if it reproduces on 2 of 3 fresh runs",
                            "whether an address is inside the whitelist is decided by TLC (IpRange!Denotes)"]
    return rep.finish()
