"""C19 every setting works via flag, environment and INI file; flags win."""
import concurrent.futures
import http.client
import json
import os
import random
import socket
import time

import binsrv
import common
import srv

BOOLS = {"allow-write", "debug", "json-log"}
BAD = {"root": "/nonexistent-dir-for-verif", "client-whitelist": "999.1.2.3", "max-clients": "many", "read-timeout": "soon",
       "listen-addr": "256.0.0.1:x", "debug-server-listen-addr": "nonsense", "allow-write": "maybe", "debug": "maybe", "json-log": "maybe"}


def free_port():
    s = socket.socket()
    s.bind(("127.0.0.1", 0))
    p = s.getsockname()[1]
    s.close()
    return p


def concrete(setting, kind, dirs):
    """Concrete, distinguishable values for the abstract V1 / V2 of a case (input construction)."""
    if setting in BOOLS:
        return {"V1": "true", "V2": "false"} if kind != "flagwins" else {"V1": "false", "V2": "true"}
    if setting == "root":
        return {"V1": dirs["rootA"], "V2": dirs["rootB"]}
    if setting == "listen-addr":
        return {"V1": "127.0.0.1:%d" % free_port(), "V2": "127.0.0.1:%d" % free_port()}
    if setting == "debug-server-listen-addr":
        return {"V1": "127.0.0.1:%d" % free_port(), "V2": "127.0.0.1:%d" % free_port()}
    if setting == "client-whitelist":
        return {"V1": "127.0.0.2", "V2": "127.0.0.3"}
    if setting == "max-clients":
        return {"V1": "1", "V2": "2"}
    if setting == "read-timeout":
        return {"V1": "700ms", "V2": "2500ms"}
    raise KeyError(setting)


def bad_value(setting, idx, dirs):
    """A malformed value for the setting; several kinds in rotation (input construction)."""
    if setting == "root":
        k = idx % 4
        if k == 1:      # an existing regular file
            p = os.path.join(dirs["files"], "not-a-dir.txt")
            open(p, "w").write("x")
            return p
        if k == 2:      # a device
            return "/dev/null"
        if k == 3:      # a FIFO
            p = os.path.join(dirs["files"], "fifo")
            os.mkfifo(p)
            return p
        return BAD["root"]
    alt = {"client-whitelist": ["999.1.2.3", "10.0.0.0/33", "10.0.0.9-10.0.0.1", "10.0.0.0/255.0.255.0"],
           "max-clients": ["many", "1.5", "99999999999999999999"],
           "read-timeout": ["soon", "10", "5 minutes"],
           "listen-addr": ["256.0.0.1:x", "127.0.0.1:99999"]}
    if setting in alt:
        return alt[setting][idx % len(alt[setting])]
    return BAD[setting]


# a second, harmless setting given along with the one under test (every other case): settings must not disable each other
COMPANION = {"max-clients": ("client-whitelist", "127.0.0.1-127.0.0.9"), "client-whitelist": ("max-clients", "6"),
             "read-timeout": ("max-clients", "6"), "allow-write": ("read-timeout", "5m"), "root": ("allow-write", "true"),
             "debug": ("max-clients", "6"), "json-log": ("client-whitelist", "127.0.0.0/8")}


def run_case(binary, proto, scratch, idx, case):
    setting, kind = case["setting"], case["kind"]
    base = os.path.join(scratch, "case%d" % idx)
    # (root directories with characters an INI parser may take for a comment sign)
    dirs = {k: os.path.join(base, {"rootA": "rootA#1", "rootB": "root;B"}.get(k, k)) for k in ("home", "xdg", "cwd", "rootA", "rootB", "files")}
    for d in dirs.values():
        os.makedirs(d)
    for name, d in (("markerA.txt", "rootA"), ("markerB.txt", "rootB"), ("cwd.txt", "cwd")):
        open(os.path.join(dirs[d], name), "w").write(name)
    vals = concrete(setting, kind, dirs)
    if case.get("variant", idx) % 3 == 0:
        # directories in the working directory that happen to be named like the sub-commands
        for nm in ("server", "make-iso", "decrypt"):
            os.makedirs(os.path.join(dirs["cwd"], nm), exist_ok=True)
    vidx = case.get("variant", idx)      # which malformed value / companion: fixed per case, so that a confirmation run repeats it
    vals["BAD"] = bad_value(setting, vidx, dirs)
    vals["EMPTY"] = ""
    args_global, args_server = [], []
    env = {"HOME": dirs["home"], "XDG_CONFIG_HOME": dirs["xdg"]}
    if kind == "nohome":
        env = {"HOME": "", "XDG_CONFIG_HOME": ""}
    comp = COMPANION.get(setting) if (vidx % 2 == 1 and kind not in ("malformed",)) else None
    comp_ini = ""
    if comp:
        how = ["flag", "env", "ini"][(vidx // 2) % 3]
        if how == "ini" and not any(a["ch"] in ("configflag", "configenv", "cwdini", "userini") for a in case["assign"]):
            how = "env"
        if how == "flag":
            args_server.append("--%s=%s" % comp)
        elif how == "env":
            env["PS3NETSRV_" + comp[0].upper().replace("-", "_")] = comp[1]
        else:
            comp_ini = "%s = %s\n" % comp
    for a in case["assign"]:
        ch, v = a["ch"], vals[a["v"]]
        ini = "[server]\n%s = %s\n%s" % (setting, v, comp_ini)
        if ch == "flag":
            args_server.append("--%s=%s" % (setting, v))
        elif ch == "env":
            env["PS3NETSRV_" + setting.upper().replace("-", "_")] = v
        elif ch == "configflag":
            p = os.path.join(dirs["files"], "byflag.ini")
            open(p, "w").write(ini)
            args_global += ["--config", p]
        elif ch == "configenv":
            p = os.path.join(dirs["files"], "byenv.ini")
            open(p, "w").write(ini)
            env["PS3NETSRV_CONFIG_FILE"] = p
        elif ch == "cwdini":
            open(os.path.join(dirs["cwd"], "config.ini"), "w").write(ini)
        elif ch == "userini":
            os.makedirs(os.path.join(dirs["xdg"], "ps3netsrv-go"))
            open(os.path.join(dirs["xdg"], "ps3netsrv-go", "config.ini"), "w").write(ini)
    fixed = []
    if setting != "listen-addr":
        fixed.append("--listen-addr=127.0.0.1:0")
    # the log must be parseable for the driver unless the log format itself is under test
    if setting != "json-log":
        fixed.append("--json-log")
    wait_listen = setting != "listen-addr"
    s = binsrv.Server(binary, args_global + ["server"] + fixed + args_server, env=env, cwd=dirs["cwd"], wait_listen=wait_listen, timeout=6.0)
    obs = {"ev": "Start", "setting": setting, "kind": kind, "assign": case["assign"], "observed": "?", "detail": "", "companion": list(comp) if comp else []}
    try:
        if setting == "listen-addr":
            time.sleep(0.8)
        elif s.addr is None:
            s.wait_exit(3.0)      # its output ended without a "Listening" line: it is on its way out
        if not s.alive():
            obs["observed"] = "refused"
            obs["detail"] = "exit %s: %s" % (s.proc.returncode, " | ".join((s.err + s.lines)[-2:])[:300])
            return obs
        addr = s.addr
        if setting == "listen-addr":
            addr = None
            for tag in ("V1", "V2"):
                h, p = vals[tag].rsplit(":", 1)
                try:
                    c = socket.create_connection((h, int(p)), timeout=0.5)
                    c.close()
                    addr = (h, int(p))
                    obs["observed"] = tag
                except OSError:
                    pass
            if addr is None:
                obs["observed"] = "default"
            return obs
        if addr is None:
            obs["observed"] = "refused" if not s.alive() else "?"
            obs["detail"] = "no Listening line: " + " | ".join((s.err + s.lines)[-2:])[:300]
            return obs
        stat = lambda p: proto.encode("STAT_FILE", path=p)
        want = proto.fixed_len("STAT_FILE")

        def served(src=None, path="/", keep=False):
            c = binsrv.Client(addr, src=src)
            c.send(stat(path))
            b, st = c.recv_exact(want, 2.0)
            if keep and st == "ok":
                return c, proto.decode_fixed("STAT_FILE", b)
            c.close()
            return (None, proto.decode_fixed("STAT_FILE", b)) if st == "ok" else (None, None)
        if setting == "root":
            seen = [n for n in ("markerA.txt", "markerB.txt", "cwd.txt") if (served(path="/" + n)[1] or {}).get("size", -1) >= 0]
            obs["observed"] = {"markerA.txt": "V1", "markerB.txt": "V2", "cwd.txt": "default"}.get(seen[0] if len(seen) == 1 else "", "?")
            obs["detail"] = ",".join(seen)
        elif setting == "allow-write":
            c = binsrv.Client(addr)
            c.send(proto.encode("MKDIR", path="/made"))
            b, st = c.recv_exact(4, 2.0)
            c.close()
            ok = st == "ok" and int.from_bytes(b, "big", signed=True) == 0
            obs["observed"] = [t for t in ("V1", "V2") if vals[t] == ("true" if ok else "false")][0] if kind != "default" else ("V1" if ok else "default")
            if kind in ("alone", "nohome") and not ok:
                obs["observed"] = "default"
        elif setting == "client-whitelist":
            a = served(src="127.0.0.2")[1] is not None
            b = served(src="127.0.0.3")[1] is not None
            obs["observed"] = {(True, False): "V1", (False, True): "V2", (True, True): "default"}.get((a, b), "?")
        elif setting == "max-clients":
            cl = []
            n = 0
            for _ in range(3):
                c, r = served(keep=True)
                if r is not None:
                    n += 1
                    cl.append(c)
            for c in cl:
                c.close()
            obs["observed"] = {1: "V1", 2: "V2", 3: "default"}.get(n, "?")
        elif setting == "read-timeout":
            c, r = served(keep=True)
            t0 = time.monotonic()
            st, _ = c.poll(3.6)
            dt = time.monotonic() - t0
            c.close()
            obs["observed"] = "default" if st != "closed" else ("V1" if dt < 1.6 else "V2")
            obs["detail"] = "%.2f" % dt
        elif setting == "debug":
            served()
            time.sleep(0.2)
            dbg = any('"level":"DEBUG"' in ln or "DBG" in ln for ln in s.lines)
            obs["observed"] = [t for t in ("V1", "V2") if vals[t] == ("true" if dbg else "false")][0]
            if kind in ("alone", "default", "nohome") and not dbg:
                obs["observed"] = "default"
        elif setting == "json-log":
            first = s.lines[0] if s.lines else ""
            try:
                json.loads(first)
                js = True
            except ValueError:
                js = False
            obs["observed"] = [t for t in ("V1", "V2") if vals[t] == ("true" if js else "false")][0]
            if kind in ("alone", "default", "nohome") and not js:
                obs["observed"] = "default"
        elif setting == "debug-server-listen-addr":
            time.sleep(0.3)
            hit = []
            for tag in ("V1", "V2"):
                h, p = vals[tag].rsplit(":", 1)
                try:
                    hc = http.client.HTTPConnection(h, int(p), timeout=1.0)
                    hc.request("GET", "/debug/pprof/")
                    if hc.getresponse().status == 200:
                        hit.append(tag)
                    hc.close()
                except OSError:
                    pass
            obs["observed"] = hit[0] if len(hit) == 1 else ("default" if not hit else "?")
        return obs
    except OSError as e:
        obs["observed"] = "?"
        obs["detail"] = "driver: %r" % (e,)
        return obs
    finally:
        s.stop()


def run(tier, seed, replay=None):
    rep = common.Report("C19", tier, seed, "model_checking")
    rng = random.Random(seed * 1190494759 + 19)
    with common.Scratch("c19-") as scratch:
        binary = common.build_binary(scratch)
        specdir = common.prepare_spec_dir(scratch)
        proto = binsrv.Proto(srv.export_proto(specdir))
        res = common.run_tlc(specdir, "MC_Config.tla", "MC_Config.cfg", workers=2, timeout=300)
        common.tlc_must_pass(res, "MC_Config")
        rep.add_tlc(res)
        gen = common.run_tlc(specdir, "MC_Config.tla", "GEN_Config.cfg", workers=1, timeout=300)
        common.tlc_must_pass(gen, "GEN_Config")
        cases = [json.loads(json.loads(x)) for x in gen.printed("CASE")]
        if replay:
            cases = json.load(open(os.path.join(replay, "cases.json")))
        # the default listen address is a fixed port: that single case cannot run beside others
        cases = [c for c in cases if not (c["setting"] == "listen-addr" and c["kind"] == "default")]
        rng.shuffle(cases)
        for i, c in enumerate(cases):
            c.setdefault("variant", i)
        with concurrent.futures.ThreadPoolExecutor(max_workers=12) as ex:
            obs = list(ex.map(lambda ic: run_case(binary, proto, scratch, ic[0], ic[1]), enumerate(cases)))
        todo = list(zip(cases, obs))
        confirm_no = 0
        while todo:
            lines = [o for _, o in todo]
            tp = os.path.join(specdir, "trace.ndjson")
            common.write_ndjson(tp, lines)
            v = common.validate_trace(specdir, "ConfigTrace.tla", "TR_Config.cfg", tp, len(lines), timeout=600)
            rep.add_tlc(v.res)
            if v.accepted:
                rep.cov["traces_validated_against_impl"] += len(lines)
                break
            case, o = todo[v.hwm]
            # confirm on a fresh start
            confirm_no += 1
            o2 = run_case(binary, proto, scratch, 100000 + confirm_no, case)
            if o2["observed"] == o["observed"]:
                chans = "+".join(sorted(a["ch"] for a in case["assign"]))
                rep.violation("Config:%s:%s:%s:%s" % (case["setting"], case["kind"], chans, o["observed"]),
                              "setting %r given via %s (%s): the binary shows %r (%s); the specification allows only Effective(assign)" % (
                                  case["setting"], chans, json.dumps(case["assign"]), o["observed"], o.get("detail", "")),
                              {"cases.json": [case], "observation.json": o})
            else:
                rep.notes.append("unreproduced: %s %s" % (case["setting"], case["assign"]))
            rep.cov["traces_validated_against_impl"] += v.hwm
            todo = todo[v.hwm + 1:]
            if len(rep.violations) >= 30:
                break
        rep.cov["evaluations"] = len(cases)
        rep.cov["distinct_nontrivial"] = len([c for c in cases if c["kind"] != "default"])
        rep.cov["exhaustive"] = True
        rep.cov["rule"] = ("TLC enumerates: each of the 9 observable settings x each of the 6 channels alone, each setting x (flag, other channel) with "
                           "conflicting values, each security-relevant setting x each channel with a malformed value, defaults; every case starts the real "
                           "binary in a private HOME / XDG_CONFIG_HOME / cwd and probes the effect (served directory, bound port, mkdir, source address, "
                           "third client, idle cut time, DEBUG line, JSON log line, pprof endpoint); malformed values rotate over several kinds (for root: "
                           "missing path, regular file, device, FIFO); every other case carries a second, harmless setting through flag / "
                           "environment / the same INI file, which must not change the effect of the first")
        rep.cov["samples"] = [obs[0], obs[1]]
    return rep.finish()
