"""C16 idle connections are cut after the read timeout, active ones never."""
import concurrent.futures
import json
import os
import random
import time

import binsrv
import common
import srv

T_IN = 400      # ms, in-process read timeout
T_BIN = 600     # ms, real binary


def in_process_worlds(rng, full):
    t = 1460000000
    nodes = [srv.dnode(["a"], t), srv.fnode(["a", "f.bin"], 5000, cid="t_f", mtime=t + 1)]
    stat = {"op": "STAT_FILE", "path": "/a/f.bin"}
    conns = []

    def add(reqs, end):
        conns.append({"id": len(conns) + 1, "reqs": reqs, "end": end})
    add([], "timeout")                                             # silent after connect
    for k in (1, 2, 3):
        add([dict(stat, delayMs=rng.randrange(0, T_IN // 3)) for _ in range(k)], "timeout")   # silent after k requests
    for cut in ([1, 2, 8, 15, 16, 18, 24] if full else [1, 15, 16, 20]):                      # stalled inside the command / the path
        add([stat, dict(stat, cut=cut, stall=True)], "close")
    for _ in range(2 if not full else 6):                                                      # active for many multiples of T: never cut
        n = 14
        add([dict(rng.choice([stat, {"op": "OPEN_DIR", "path": "/a"}, {"op": "READ_DIR"}]), delayMs=rng.randrange(T_IN // 10, T_IN * 7 // 10)) for _ in range(n)],
            rng.choice(["close", "timeout"]))
    # a peer that asks for a large transfer, stops reading it and stays silent: cut T after the transfer stopped moving
    nodes.append(srv.fnode(["a", "big.bin"], 400000, cid="t_big", mtime=t + 2))
    for op, k in ([("READ_FILE_CRITICAL", 5000), ("READ_FILE", 3), ("READ_FILE", 70000)] if not full else
                  [("READ_FILE_CRITICAL", 1), ("READ_FILE_CRITICAL", 5000), ("READ_FILE_CRITICAL", 140000), ("READ_FILE", 3), ("READ_FILE", 4), ("READ_FILE", 70000)]):
        add([stat, {"op": "OPEN_FILE", "path": "/a/big.bin"}, {"op": op, "limit": 300000, "off": 0, "stallWriteAfter": k}], "close")
    w = {"name": "timeout-%d" % T_IN, "aw": False, "nodes": nodes, "conns": conns, "schedule": "conc", "readTimeoutMs": T_IN, "quiesce": True}
    # no timeout configured: never armed, never cut
    w0 = {"name": "no-timeout", "aw": False, "nodes": nodes, "schedule": "conc", "readTimeoutMs": 0, "quiesce": True,
          "conns": [{"id": 1, "reqs": [stat, dict(stat, delayMs=700), dict(stat, delayMs=300)], "end": "close"},
                    {"id": 2, "reqs": [dict(stat, delayMs=900)], "end": "close"}]}
    return [w, w0]


def now_ms(t0):
    return int((time.monotonic() - t0) * 1000)


def bin_scenario(binary, proto, root, T, rng, full):
    """One server with --read-timeout T; several clients in threads; returns events or an error string."""
    args = ["server", "--root", root, "--listen-addr", "127.0.0.1:0", "--json-log"]
    if T is not None:
        args += ["--read-timeout", "%dms" % T]
    s = binsrv.Server(binary, args)
    if not s.addr:
        s.stop()
        return None, "server did not start: " + "\n".join(s.lines[-3:] + s.err[-3:])
    t0 = time.monotonic()
    Teff = T if T is not None else 0
    events = [{"ev": "Config", "T": Teff}]
    stat = proto.encode("STAT_FILE", path="/marker.txt")
    want = proto.fixed_len("STAT_FILE")
    plans = [("silent", 0), ("after", 1), ("after", 3), ("stall", 7), ("stall", 16 + 5), ("active", 12), ("active", 9)]
    if full:
        plans += [("stall", 1), ("stall", 15), ("after", 2), ("active", 20)]
    if Teff == 0:
        plans = [("silent", 0), ("after", 2)]

    def client(cid, kind, k):
        ev = []
        try:
            ta = now_ms(t0)
            c = binsrv.Client(s.addr)
            ev.append({"ev": "Connect", "c": cid, "t0": ta, "t1": now_ms(t0)})

            def request():
                ts = now_ms(t0)
                if not c.send(stat):
                    ev.append({"ev": "Cut", "c": cid, "t": now_ms(t0)})
                    return False
                b, st = c.recv_exact(want, 5.0)
                if st == "ok":
                    ev.append({"ev": "Request", "c": cid, "ts": ts, "tr": now_ms(t0)})
                    return True
                ev.append({"ev": "Cut", "c": cid, "t": now_ms(t0)})
                return False

            def wait_cut():
                limit = (Teff + 2500) / 1000.0 if Teff else 1.5
                st, _ = c.poll(limit)
                if st == "closed":
                    ev.append({"ev": "Cut", "c": cid, "t": now_ms(t0)})
                else:
                    ev.append({"ev": "NotCut", "c": cid, "t": now_ms(t0)})
                    ev.append({"ev": "Bye", "c": cid})
                    c.close()
            if kind == "silent":
                wait_cut()
            elif kind == "after":
                for _ in range(k):
                    time.sleep(rng.uniform(0.05, 0.3) * max(Teff, 300) / 1000.0)
                    if not request():
                        return ev
                wait_cut()
            elif kind == "stall":
                if not request():
                    return ev
                c.send(stat[:k])
                ev.append({"ev": "Partial", "c": cid, "t": now_ms(t0), "bytes": k})
                wait_cut()
            elif kind == "active":
                for _ in range(k):
                    time.sleep(rng.uniform(0.1, 0.7) * Teff / 1000.0)
                    if not request():
                        return ev
                ev.append({"ev": "Bye", "c": cid})
                c.close()
        except OSError as e:
            ev.append({"ev": "DriverError", "c": cid, "err": repr(e)})
        return ev
    with concurrent.futures.ThreadPoolExecutor(max_workers=len(plans)) as ex:
        futs = [ex.submit(client, i + 1, kind, k) for i, (kind, k) in enumerate(plans)]
        per = [f.result() for f in futs]
    crashed, txt = s.crashed()
    alive = s.alive()
    s.stop()
    if crashed or not alive:
        return None, "server died: " + txt[-400:]
    for e in per:
        events += e
    if any(x["ev"] == "DriverError" for x in events):
        return None, "driver error: %s" % [x for x in events if x["ev"] == "DriverError"][:2]
    return events, None


def run(tier, seed, replay=None):
    rep = common.Report("C16", tier, seed, "model_checking")
    rng = random.Random(seed * 1000000007 + 16)
    full = tier != "quick"
    with common.Scratch("c16-") as scratch:
        harness = common.build_harness(scratch)
        binary = common.build_binary(scratch)
        specdir = common.prepare_spec_dir(scratch)
        protop = srv.export_proto(specdir)
        res = common.run_tlc(specdir, "Timeout.tla", "MC_Timeout.cfg", workers=4, timeout=900)
        common.tlc_must_pass(res, "MC_Timeout")
        rep.add_tlc(res)
        # (a) in process: every SetReadDeadline call is recorded
        ctx = srv.SrvCtx(scratch, harness, specdir, protop)
        if replay and os.path.exists(os.path.join(replay, "script.json")):
            worlds = json.load(open(os.path.join(replay, "script.json")))["worlds"]
        else:
            worlds = in_process_worlds(rng, full)
        srv.run_and_validate(ctx, worlds, rep)
        # (b) the real binary with --read-timeout
        proto = binsrv.Proto(protop)
        root = os.path.join(scratch, "root")
        os.makedirs(root)
        open(os.path.join(root, "marker.txt"), "w").write("x")
        for T in ([T_BIN, None] if not full else [300, T_BIN, 2000, None]):
            verdicts = []
            last = None
            for attempt in range(3):
                events, err = bin_scenario(binary, proto, root, T, random.Random(rng.random()), full)
                if err:
                    raise common.CheckError(err)
                tp = os.path.join(specdir, "trace.ndjson")
                common.write_ndjson(tp, events)
                v = common.validate_trace(specdir, "TimeoutTrace.tla", "TR_Timeout.cfg", tp, len(events), timeout=600)
                rep.add_tlc(v.res)
                verdicts.append(v.accepted)
                last = (events, v)
                if v.accepted:
                    break
            if verdicts.count(False) >= 2 and not any(verdicts):
                events, v = last
                rej = events[v.hwm]
                rep.violation("Timeout:%s" % rej["ev"], "TLC rejects the timing trace of the real binary (--read-timeout %s ms) at event %s (3 of 3 runs)\nits connection's events: %s" % (
                    T, json.dumps(rej), json.dumps([e for e in events if e.get("c") == rej.get("c")])), {"trace.ndjson": "\n".join(json.dumps(e) for e in events)})
            elif verdicts[-1]:
                rep.cov["traces_validated_against_impl"] += 1
                rep.cov["evaluations"] += len(last[0])
                if not all(verdicts):
                    rep.notes.append("T=%s: %d unreproduced timing rejection(s), not counted" % (T, verdicts.count(False)))
        rep.cov["rule"] = ("in process (T=%d ms, every SetReadDeadline call recorded): silent after connect / after k requests, stalled inside the 16-byte "
                           "command and inside the path, requests spaced 0.1T..0.7T for 14 requests, no timeout configured; real binary (--read-timeout %d ms "
                           "and default): the same schedules over TCP with client-side clocks (tolerance 60 ms, cut slack 1.5 s, 3 attempts); "
                           "distinct_nontrivial = worlds/scenarios accepted" % (T_IN, T_BIN))
        rep.cov["distinct_nontrivial"] = max(2, rep.cov["traces_validated_against_impl"])
        rep.cov["samples"] = [worlds[0]["conns"][4] if len(worlds[0]["conns"]) > 4 else worlds[0]["conns"][0]]
        rep.assumptions += ["timing: a rejected real-binary trace counts only when all 3 attempts are rejected; in-process deadlines are read from the connection object, not from a clock race"]
    return rep.finish()
