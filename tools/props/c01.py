"""C01 root confinement: no request reaches outside the served root."""
import json
import os
import random

import binsrv
import common
import srv
import hashlib
import re
import subprocess
import time

PATH_OPS = ["OPEN_DIR", "STAT_FILE", "OPEN_FILE", "GET_DIR_SIZE", "CREATE_FILE", "DELETE_FILE", "MKDIR", "RMDIR"]
SPELLINGS = ["abs", "rel", "trailing"]   # "." reaches the library only as an absolute path (kong existingdir); the binary-level run covers it


def inside_tree(t):
    """The served root: names chosen so that the sentinel zone (../up.txt, ../g-other/secret, ../g-other/sub/deep,
    ../g-other/secret.dkey) has look-alikes and reachable-looking neighbours."""
    return [srv.dnode(["a"], t), srv.fnode(["a", "f1"], 3000, cid="in_f1", mtime=t + 1), srv.fnode(["secret"], 11, cid="in_secret", mtime=t + 2),
            srv.dnode(["PS3ISO"], t + 3), srv.fnode(["PS3ISO", "game.iso"], 4096, cid="in_game", mtime=t + 4),
            srv.dnode(["g-other"], t + 5), srv.fnode(["up.txt"], 7, cid="in_up", mtime=t + 6)]


def hostile_paths(rng, n):
    """Byte strings beyond the model's alphabet: NUL, 64 KiB, doubled separators, mixed '..', random bytes."""
    out = []
    segs = ["..", ".", "", "a", "f1", "g-other", "secret", "up.txt", "sub", "deep", "PS3ISO", "game.iso", "***DVD***", "***PS3***",
            "g", "..g-other", "g-other/..", "***DVD***..", "***PS3***..", "***DVD***", "***DVD***g-other", "\x00", "a\x00b", "x" * 300, "%2e%2e", "..\\", "...."]
    for _ in range(n):
        k = rng.randrange(1, 9)
        p = "/".join(rng.choice(segs) for _ in range(k))
        if rng.random() < 0.6:
            p = "/" + p
        out.append(p.encode("latin1").hex())
    # 64 KiB paths (few long segments: TLC cleans them in quadratic time) and a deep '..' chain
    out.append(("/" + "../" * 1500 + "g-other/secret").encode().hex())
    out.append(("/a/" + ("y" * 250 + "/../") * 255 + "../../g-other/secret").encode().hex()[: 2 * 65535])
    out.append(("/" + ("z" * 255 + "/") * 255 + "..").encode().hex()[: 2 * 65535])
    out.append(bytes(rng.randrange(256) for _ in range(200)).hex())
    out.append(b"/../g-other/secret".hex())
    out.append(b"../g-other/secret".hex())
    out.append(b"/***DVD***/../g-other".hex())
    out.append(b"/***PS3***/../../g-other/sub".hex())
    out.append(b"/***DVD***/../g-other/sub".hex())
    out.append(b"/../g-other/PS3ISO/../secret.iso".hex())
    out.append(b"/***DVD***../g-other".hex())
    out.append(b"/***DVD***../g-other/sub".hex())
    out.append(b"/***PS3***../g-other/sub".hex())
    return out


ESCAPES = ["/../up.txt", "../up.txt", "/../g-other/secret", "../g-other/secret", "/a/../../g-other/sub/deep", "/../g-other", "../g-other/sub",
           "/../../../../../../etc/passwd", "../../../../../../../etc/passwd", "/***DVD***/../g-other", "/***DVD***../g-other", "/***PS3***/../../g-other/sub",
           "/../g-other/secret.iso", "/PS3ISO/../../g-other/secret.iso", "/a/./../..//g-other//secret", "/..", "..", "/../g", "/../g/a/f1"]
FILE_SYSCALLS = ("open", "openat", "openat2", "stat", "lstat", "newfstatat", "statx", "unlink", "unlinkat", "mkdir", "mkdirat", "rmdir", "rename", "renameat",
                 "renameat2", "readlink", "readlinkat", "access", "faccessat", "faccessat2", "truncate", "chmod", "fchmodat", "utimensat", "creat", "link",
                 "linkat", "symlink", "symlinkat", "chdir", "getxattr", "lgetxattr")


def tree_digest(base, skip):
    h = hashlib.sha256()
    for d, dirs, files in sorted(os.walk(base)):
        if d == skip or d.startswith(skip + os.sep):
            dirs[:] = []
            continue
        dirs.sort()
        for f in sorted(files):
            p = os.path.join(d, f)
            st = os.lstat(p)
            h.update(("%s|%d|%d|%o\n" % (p, st.st_size, st.st_mtime_ns, st.st_mode)).encode())
            if os.path.isfile(p) and not os.path.islink(p):
                h.update(open(p, "rb").read())
        for x in dirs:
            st = os.lstat(os.path.join(d, x))
            h.update(("%s|dir|%o\n" % (os.path.join(d, x), st.st_mode)).encode())
    return h.hexdigest()


def binary_run(binary, proto, scratch, idx, spelling, aw, rng):
    """Start the real binary under strace with the root spelled as the operator might, send escaping requests with every
    path-carrying opcode, and report every path the process handed to a file system call afterwards."""
    base = os.path.join(scratch, "bin%d" % idx)
    root = os.path.join(base, "g")
    os.makedirs(os.path.join(root, "a"))
    os.makedirs(os.path.join(root, "PS3ISO"))
    os.makedirs(os.path.join(base, "g-other", "sub"))
    os.makedirs(os.path.join(base, "elsewhere"))
    for p, c in ((os.path.join(root, "a", "f1"), "inside-f1"), (os.path.join(root, "marker.txt"), "m"), (os.path.join(base, "up.txt"), "OUTSIDE-up"),
                 (os.path.join(base, "g-other", "secret"), "OUTSIDE-secret"), (os.path.join(base, "g-other", "secret.iso"), "OUTSIDE-iso"),
                 (os.path.join(base, "g-other", "secret.dkey"), "00112233445566778899aabbccddeeff"), (os.path.join(base, "g-other", "sub", "deep"), "OUTSIDE-deep")):
        open(p, "w").write(c)
    cwd, arg = {"abs": (os.path.join(base, "elsewhere"), root), "rel": (base, "g"), "dot": (root, "."), "trailing": (base, "g/"),
                "default": (root, None), "updown": (root, "../g"), "dotslash": (base, "./g/./")}[spelling]
    before = tree_digest(base, root)
    aux = os.path.join(scratch, "strace%d" % idx)     # kept outside the sentinel zone
    os.makedirs(aux)
    st_out = os.path.join(aux, "strace.txt")
    args = ["server", "--listen-addr", "127.0.0.1:0", "--json-log"] + (["--root", arg] if arg is not None else []) + (["--allow-write"] if aw else [])
    wrapper = os.path.join(aux, "straced.sh")
    open(wrapper, "w").write("#!/bin/sh\nexec strace -f -qq -e trace=%%file -o %s %s \"$@\"\n" % (st_out, binary))
    os.chmod(wrapper, 0o755)
    s = binsrv.Server(wrapper, args, cwd=cwd, timeout=15.0)
    try:
        if not s.addr:
            return None, "server did not start (%s): %s" % (spelling, " | ".join((s.err + s.lines)[-3:])[:400])
        c = binsrv.Client(s.addr)
        c.send(proto.encode("STAT_FILE", path="/__verif_start_marker__"))
        c.recv_exact(proto.fixed_len("STAT_FILE"), 3.0)
        answers = []
        for op in PATH_OPS:
            if op in ("CREATE_FILE", "DELETE_FILE", "MKDIR", "RMDIR") and not aw and rng.random() < 0.5:
                continue
            for path in ESCAPES:
                c.send(proto.encode(op, path=path))
                b, stt = c.recv_exact(proto.fixed_len(op), 3.0)
                if stt != "ok":
                    c.close()
                    c = binsrv.Client(s.addr)
                answers.append((op, path, b.hex() if stt == "ok" else stt))
                if op == "OPEN_FILE" and stt == "ok" and int.from_bytes(b[:8], "big", signed=True) >= 0:
                    c.send(proto.encode("READ_FILE", limit=64, off=0))
                    hb, _ = c.recv_exact(4, 3.0)
                    n = int.from_bytes(hb, "big", signed=True) if len(hb) == 4 else -1
                    data, _ = c.recv_exact(max(0, n), 3.0)
                    answers.append(("READ_FILE", path, data.hex()))
        c.close()
        time.sleep(0.2)
        crashed, txt = s.crashed()
        alive = s.alive()
    finally:
        s.stop()
    after = tree_digest(base, root)
    # paths handed to file system calls after the marker, relative to the scratch base
    paths, seen, started = [], set(), False
    pat = re.compile(r'^(?:\d+\s+)?(\w+)\((.*)$')
    for line in open(st_out, errors="replace"):
        if "__verif_start_marker__" in line:
            started = True
            continue
        if not started:
            continue
        m = pat.match(line)
        if not m or m.group(1) not in FILE_SYSCALLS:
            continue
        for q in re.findall(r'"((?:[^"\\\\]|\\\\.)*)"', m.group(2))[:2]:
            q = q.encode().decode("unicode_escape", "replace") if "\\" in q else q
            full = os.path.normpath(q if q.startswith("/") else os.path.join(cwd, q))
            if full in seen:
                continue
            seen.add(full)
            if full == base or full.startswith(base + os.sep):
                rel = os.path.relpath(full, base)
                paths.append([x if all(31 < ord(ch) < 127 and ch not in '"\\~' for ch in x) else "~odd" for x in rel.split(os.sep)])
            elif full.startswith(("/etc/passwd", "/etc/shadow", "/root/", "/home/")):
                paths.append(["~canary", full.replace("/", "_")])
    outside_data = [a for a in answers if "4f555453494445" in a[2]]     # "OUTSIDE" in any payload
    events = [{"ev": "World", "name": "binary-%s" % spelling, "aw": aw, "nodes": [], "views": [], "root": spelling, "index": idx, "timeoutMs": 0, "libPanics": []},
              {"ev": "RealPaths", "rootName": "g", "paths": paths, "spelling": spelling, "leaked": [list(a) for a in outside_data[:5]]},
              {"ev": "Sentinel", "same": before == after and not outside_data}]
    if crashed or not alive:
        return None, "server died under strace: " + txt[-300:]
    return events, None


def run(tier, seed, replay=None):
    rep = common.Report("C01", tier, seed, "model_checking")
    rng = random.Random(seed * 86028121 + 1)
    full = tier != "quick"
    with common.Scratch("c01-") as scratch:
        harness = common.build_harness(scratch)
        specdir = common.prepare_spec_dir(scratch)
        proto = srv.export_proto(specdir)
        ctx = srv.SrvCtx(scratch, harness, specdir, proto)
        if replay:
            worlds = json.load(open(os.path.join(replay, "script.json")))["worlds"]
            srv.run_and_validate(ctx, worlds, rep)
            rep.cov["samples"] = [w["name"] for w in worlds]
            return rep.finish()
        # design level: normalisation + the dependency's mechanism confine every wire path (exhaustive, <= 5 segments)
        res = common.run_tlc(specdir, "MC_PathRes.tla", "MC_PathRes.cfg", workers=8, timeout=900)
        common.tlc_must_pass(res, "MC_PathRes")
        rep.add_tlc(res)
        # ... and the mechanism alone does not (sanity: the counterexample must exist, otherwise the model is vacuous)
        res2 = common.run_tlc(specdir, "MC_PathRes.tla", "MC_PathResMechanism.cfg", workers=1, timeout=300)
        if "MechanismAloneConfines is violated" not in res2.out:
            raise common.CheckError("the sibling-prefix counterexample disappeared from the model (vacuity guard)")
        # model -> code: every wire path of the model x every path-carrying opcode
        gen = common.run_tlc(specdir, "MC_PathRes.tla", "GEN_PathRes.cfg", workers=1, timeout=600)
        common.tlc_must_pass(gen, "GEN_PathRes")
        rep.add_tlc(gen)
        segs = [json.loads(json.loads(x)) for x in gen.printed("PATH")]
        wires = []
        for s in segs:
            if not s:
                wires += ["", "/"]
                continue
            wires.append("/" + "/".join(s))
            wires.append("/".join(s))
        wires = sorted(set(wires))
        cases = [(op, w) for w in wires for op in PATH_OPS]
        rng.shuffle(cases)
        if not full:
            cases = cases[:6000]
        t = 1450000000
        worlds = []
        per = 150
        for i in range(0, len(cases), per):
            chunk = cases[i:i + per]
            aw = (i // per) % 3 != 0
            conns, reqs = [], []

            def flush():
                if reqs:
                    conns.append({"id": len(conns) + 1, "reqs": list(reqs)})
                    del reqs[:]
            for op, w in chunk:
                reqs.append({"op": op, "pathHex": w.encode().hex()})
                # a read with nothing open ends the connection: such probes close their connection's script
                if op == "OPEN_FILE" and rng.random() < 0.5:
                    reqs.append({"op": "READ_FILE", "limit": 64, "off": 0})
                    flush()
                elif op == "OPEN_DIR" and rng.random() < 0.3:
                    reqs.append({"op": "READ_DIR"})
                if len(reqs) >= 12:
                    flush()
            flush()
            worlds.append({"name": "paths-%d" % (i // per), "aw": aw, "nodes": inside_tree(t), "sentinel": True, "ledgerBelow": True,
                           "rootSpelling": SPELLINGS[(i // per) % len(SPELLINGS)], "allViews": True,
                           "conns": conns, "probe": True})
        # code -> model: hostile byte strings
        hp = hostile_paths(rng, 150 if not full else 1500)
        for i in range(0, len(hp), 40):
            conns = []
            for h in hp[i:i + 40]:
                op = rng.choice(PATH_OPS)
                reqs = [{"op": op, "pathHex": h}]
                if op == "OPEN_FILE":
                    reqs.append({"op": "READ_FILE", "limit": 100, "off": 0})
                if conns and len(conns[-1]["reqs"]) < 8 and conns[-1]["reqs"][-1]["op"] != "READ_FILE":
                    conns[-1]["reqs"] += reqs
                else:
                    conns.append({"id": len(conns) + 1, "reqs": reqs})
            worlds.append({"name": "hostile-%d" % (i // 40), "aw": rng.random() < 0.7, "nodes": inside_tree(t), "sentinel": True,
                           "ledgerBelow": True, "allViews": True, "rootSpelling": rng.choice(SPELLINGS), "conns": conns, "probe": True})
        # a preceding request history: state-carrying sessions around an escaping path
        for i in range(4 if not full else 30):
            pre = srv.random_session(rng, inside_tree(t), nreq=10, aw=True)
            esc = [{"op": op, "path": rng.choice(["/../g-other/secret", "../g-other/secret", "/a/../../g-other/sub", "/../up.txt", "/../g-other"])}
                   for op in PATH_OPS]
            worlds.append({"name": "history-%d" % i, "aw": True, "nodes": inside_tree(t), "sentinel": True, "ledgerBelow": True,
                           "rootSpelling": rng.choice(SPELLINGS), "conns": [{"id": 1, "reqs": pre}, {"id": 2, "reqs": pre[:5] + esc}]})
        # the root itself as the target of a removal (it is an entry of the directory above it): also when it is empty
        for k, sp in enumerate(SPELLINGS if full else SPELLINGS[:2]):
            reqs = [{"op": op, "path": pth} for pth in ("/", "", "/.", "../..", "/a/..", "//") for op in ("RMDIR", "DELETE_FILE")] + [{"op": "STAT_FILE", "path": "/"}]
            worlds.append({"name": "remove-root-%d" % k, "aw": True, "nodes": [], "sentinel": True, "ledgerBelow": True, "rootSpelling": sp,
                           "conns": [{"id": 1, "reqs": reqs}], "probe": True})
        srv.run_and_validate(ctx, worlds, rep, max_rejections=12)
        # the real binary, root spelled as an operator might (incl. the default "."), under strace
        binary = common.build_binary(scratch)
        bproto = binsrv.Proto(proto)
        spellings = ["abs", "rel", "dot", "trailing", "default", "updown", "dotslash"]
        for i, sp in enumerate(spellings if full else ["dot", "default", rng.choice(["abs", "rel", "trailing", "updown", "dotslash"])]):
            for aw in ((False, True) if full else (True,)):
                events, err = binary_run(binary, bproto, scratch, i * 2 + int(aw), sp, aw, rng)
                if err:
                    raise common.CheckError(err)
                tp = os.path.join(specdir, "trace.ndjson")
                common.write_ndjson(tp, events)
                v = common.validate_trace(specdir, "Ps3NetSrvTrace.tla", "TR_Ps3NetSrv.cfg", tp, len(events), timeout=600)
                rep.add_tlc(v.res)
                if v.accepted:
                    rep.cov["traces_validated_against_impl"] += 1
                    rep.cov["evaluations"] += len(events[1]["paths"])
                else:
                    bad = events[v.hwm]
                    off = [p for p in bad.get("paths", []) if p[:1] != ["g"]]
                    rep.violation("binary:%s:%s" % (bad["ev"], sp), "real binary, root spelled %r (allow-write=%s): %s\npaths outside the root handed to file system calls: %s\nleaked: %s" % (
                        sp, aw, "sentinel zone changed or outside content served" if bad["ev"] == "Sentinel" else "a path outside the root reached the operating system",
                        json.dumps(off[:10]), json.dumps(events[1].get("leaked"))), {"events.json": events})
        rep.cov["rule"] = ("all wire paths of <= 4 segments over {.., ., '', a, f1, g-other, secret, nope, ***DVD***} with and without "
                           "leading slash x the 8 path-carrying opcodes (sampled in quick), hostile byte strings (NUL, 64 KiB, doubled "
                           "separators), escaping paths after random histories; root spelled absolute/relative/./trailing-slash/./g/.; "
                           "oracles: responses explained by the inside tree only, real paths seen below BasePathFs under the root, "
                           "sentinel zone bit-identical; plus the real binary under strace with the root given as absolute / relative / '.' / "
                           "default / trailing slash / '../g' / './g/.': every path argument of a file system call after start-up must lie under "
                           "the root; distinct_nontrivial = worlds accepted")
        rep.cov["distinct_nontrivial"] = rep.cov["traces_validated_against_impl"]
        rep.cov["wire_paths"] = len(wires)
        rep.cov["exhaustive"] = full
        rep.cov["samples"] = [worlds[0]["conns"][0]["reqs"][:4], worlds[-1]["conns"][0]["reqs"][-3:]]
        rep.assumptions += ["symlinks placed inside the root by the operator are outside the claim and not used in these worlds",
                            "the ledger below afero.BasePathFs sees every path handed to the OS layer by the server stack"]
    return rep.finish()
