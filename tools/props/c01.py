"""C01 root confinement: no request reaches outside the served root."""
import json
import os
import random

import common
import srv

PATH_OPS = ["OPEN_DIR", "STAT_FILE", "OPEN_FILE", "GET_DIR_SIZE", "CREATE_FILE", "DELETE_FILE", "MKDIR", "RMDIR"]
SPELLINGS = ["abs", "rel", "trailing"]   # "." reaches the library only as an absolute path (kong existingdir); the binary-level run covers it


def inside_tree(t):
    """The served root: names chosen so that the sentinel zone (../up.txt, ../g-other/secret, ../g-other/sub/deep,
    ../g-other/secret.dkey) has look-alikes and reachable-looking neighbours."""
    return [srv.dnode(["a"], t), srv.fnode(["a", "f1"], 3000, cid="in_f1", mtime=t + 1), srv.fnode(["secret"], 11, cid="in_secret", mtime=t + 2),
            srv.dnode(["PS3ISO"], t + 3), srv.fnode(["PS3ISO", "game.iso"], 4096, cid="in_game", mtime=t + 4),
            srv.dnode(["g-other"], t + 5), srv.fnode(["up.txt"], 7, cid="in_up", mtime=t + 6)]


def hostile_paths(rng, n):
    """Byte strings beyond the model's alphabet: NUL, 64 KiB, doubled separators, mixed '..', random bytes."""
    out = []
    segs = ["..", ".", "", "a", "f1", "g-other", "secret", "up.txt", "sub", "deep", "PS3ISO", "game.iso", "***DVD***", "***PS3***",
            "g", "..g-other", "g-other/..", "***DVD***..", "***PS3***..", "***DVD***", "***DVD***g-other", "\x00", "a\x00b", "x" * 300, "%2e%2e", "..\\", "...."]
    for _ in range(n):
        k = rng.randrange(1, 9)
        p = "/".join(rng.choice(segs) for _ in range(k))
        if rng.random() < 0.6:
            p = "/" + p
        out.append(p.encode("latin1").hex())
    # 64 KiB paths (few long segments: TLC cleans them in quadratic time) and a deep '..' chain
    out.append(("/" + "../" * 1500 + "g-other/secret").encode().hex())
    out.append(("/a/" + ("y" * 250 + "/../") * 255 + "../../g-other/secret").encode().hex()[: 2 * 65535])
    out.append(("/" + ("z" * 255 + "/") * 255 + "..").encode().hex()[: 2 * 65535])
    out.append(bytes(rng.randrange(256) for _ in range(200)).hex())
    out.append(b"/../g-other/secret".hex())
    out.append(b"../g-other/secret".hex())
    out.append(b"/***DVD***/../g-other".hex())
    out.append(b"/***PS3***/../../g-other/sub".hex())
    out.append(b"/***DVD***/../g-other/sub".hex())
    out.append(b"/../g-other/PS3ISO/../secret.iso".hex())
    out.append(b"/***DVD***../g-other".hex())
    out.append(b"/***DVD***../g-other/sub".hex())
    out.append(b"/***PS3***../g-other/sub".hex())
    return out


def run(tier, seed, replay=None):
    rep = common.Report("C01", tier, seed, "model_checking")
    rng = random.Random(seed * 86028121 + 1)
    full = tier != "quick"
    with common.Scratch("c01-") as scratch:
        harness = common.build_harness(scratch)
        specdir = common.prepare_spec_dir(scratch)
        proto = srv.export_proto(specdir)
        ctx = srv.SrvCtx(scratch, harness, specdir, proto)
        if replay:
            worlds = json.load(open(os.path.join(replay, "script.json")))["worlds"]
            srv.run_and_validate(ctx, worlds, rep)
            rep.cov["samples"] = [w["name"] for w in worlds]
            return rep.finish()
        # design level: normalisation + the dependency's mechanism confine every wire path (exhaustive, <= 5 segments)
        res = common.run_tlc(specdir, "MC_PathRes.tla", "MC_PathRes.cfg", workers=8, timeout=900)
        common.tlc_must_pass(res, "MC_PathRes")
        rep.add_tlc(res)
        # ... and the mechanism alone does not (sanity: the counterexample must exist, otherwise the model is vacuous)
        res2 = common.run_tlc(specdir, "MC_PathRes.tla", "MC_PathResMechanism.cfg", workers=1, timeout=300)
        if "MechanismAloneConfines is violated" not in res2.out:
            raise common.CheckError("the sibling-prefix counterexample disappeared from the model (vacuity guard)")
        # model -> code: every wire path of the model x every path-carrying opcode
        gen = common.run_tlc(specdir, "MC_PathRes.tla", "GEN_PathRes.cfg", workers=1, timeout=600)
        common.tlc_must_pass(gen, "GEN_PathRes")
        rep.add_tlc(gen)
        segs = [json.loads(json.loads(x)) for x in gen.printed("PATH")]
        wires = []
        for s in segs:
            if not s:
                wires += ["", "/"]
                continue
            wires.append("/" + "/".join(s))
            wires.append("/".join(s))
        wires = sorted(set(wires))
        cases = [(op, w) for w in wires for op in PATH_OPS]
        rng.shuffle(cases)
        if not full:
            cases = cases[:6000]
        t = 1450000000
        worlds = []
        per = 150
        for i in range(0, len(cases), per):
            chunk = cases[i:i + per]
            aw = (i // per) % 3 != 0
            conns, reqs = [], []

            def flush():
                if reqs:
                    conns.append({"id": len(conns) + 1, "reqs": list(reqs)})
                    del reqs[:]
            for op, w in chunk:
                reqs.append({"op": op, "pathHex": w.encode().hex()})
                # a read with nothing open ends the connection: such probes close their connection's script
                if op == "OPEN_FILE" and rng.random() < 0.5:
                    reqs.append({"op": "READ_FILE", "limit": 64, "off": 0})
                    flush()
                elif op == "OPEN_DIR" and rng.random() < 0.3:
                    reqs.append({"op": "READ_DIR"})
                if len(reqs) >= 12:
                    flush()
            flush()
            worlds.append({"name": "paths-%d" % (i // per), "aw": aw, "nodes": inside_tree(t), "sentinel": True, "ledgerBelow": True,
                           "rootSpelling": SPELLINGS[(i // per) % len(SPELLINGS)], "allViews": True,
                           "conns": conns, "probe": True})
        # code -> model: hostile byte strings
        hp = hostile_paths(rng, 150 if not full else 1500)
        for i in range(0, len(hp), 40):
            conns = []
            for h in hp[i:i + 40]:
                op = rng.choice(PATH_OPS)
                reqs = [{"op": op, "pathHex": h}]
                if op == "OPEN_FILE":
                    reqs.append({"op": "READ_FILE", "limit": 100, "off": 0})
                if conns and len(conns[-1]["reqs"]) < 8 and conns[-1]["reqs"][-1]["op"] != "READ_FILE":
                    conns[-1]["reqs"] += reqs
                else:
                    conns.append({"id": len(conns) + 1, "reqs": reqs})
            worlds.append({"name": "hostile-%d" % (i // 40), "aw": rng.random() < 0.7, "nodes": inside_tree(t), "sentinel": True,
                           "ledgerBelow": True, "allViews": True, "rootSpelling": rng.choice(SPELLINGS), "conns": conns, "probe": True})
        # a preceding request history: state-carrying sessions around an escaping path
        for i in range(4 if not full else 30):
            pre = srv.random_session(rng, inside_tree(t), nreq=10, aw=True)
            esc = [{"op": op, "path": rng.choice(["/../g-other/secret", "../g-other/secret", "/a/../../g-other/sub", "/../up.txt", "/../g-other"])}
                   for op in PATH_OPS]
            worlds.append({"name": "history-%d" % i, "aw": True, "nodes": inside_tree(t), "sentinel": True, "ledgerBelow": True,
                           "rootSpelling": rng.choice(SPELLINGS), "conns": [{"id": 1, "reqs": pre}, {"id": 2, "reqs": pre[:5] + esc}]})
        srv.run_and_validate(ctx, worlds, rep, max_rejections=12)
        rep.cov["rule"] = ("all wire paths of <= 4 segments over {.., ., '', a, f1, g-other, secret, nope, ***DVD***} with and without "
                           "leading slash x the 8 path-carrying opcodes (sampled in quick), hostile byte strings (NUL, 64 KiB, doubled "
                           "separators), escaping paths after random histories; root spelled absolute/relative/./trailing-slash/./g/.; "
                           "oracles: responses explained by the inside tree only, real paths seen below BasePathFs under the root, "
                           "sentinel zone bit-identical; distinct_nontrivial = worlds accepted")
        rep.cov["distinct_nontrivial"] = rep.cov["traces_validated_against_impl"]
        rep.cov["wire_paths"] = len(wires)
        rep.cov["exhaustive"] = full
        rep.cov["samples"] = [worlds[0]["conns"][0]["reqs"][:4], worlds[-1]["conns"][0]["reqs"][-3:]]
        rep.assumptions += ["symlinks placed inside the root by the operator are outside the claim and not used in these worlds",
                            "the ledger below afero.BasePathFs sees every path handed to the OS layer by the server stack"]
    return rep.finish()
