"""C18 re-opening an unchanged directory yields the same image layout."""
import json
import os
import random

import common
import isotrees
import srv


def run(tier, seed, replay=None):
    rep = common.Report("C18", tier, seed, "model_checking")
    rng = random.Random(seed * 961748941 + 18)
    full = tier != "quick"
    with common.Scratch("c18-") as scratch:
        harness = common.build_harness(scratch)
        specdir = common.prepare_spec_dir(scratch)
        proto = srv.export_proto(specdir)
        ctx = srv.SrvCtx(scratch, harness, specdir, None, sub="viso", key="cases", start_ev="Open")
        if replay:
            cases = json.load(open(os.path.join(replay, "script.json")))["cases"]
        else:
            cases = []

            def add(name, nodes, ps3=False, **kw):
                c = {"name": name, "nodes": nodes, "dir": ["d"], "ps3": ps3, "titleId": ["BLES", "01234"] if ps3 else ["", ""], "ops": []}
                c.update(kw)
                cases.append(c)
            n = 12 if not full else 120
            for i in range(n):
                t = isotrees.small_tree(rng, max_nodes=rng.choice([2, 5, 9, 14]))
                add("seq%d" % i, t, reopen=3)
                add("par%d" % i, t, reopen=8, parallel=True, osfs=(i % 3 == 0))
            # the same directory named differently (as make-iso gets it from a shell: trailing separator, "/.", ...)
            for i in range(2 if not full else 8):
                add("spell%d" % i, isotrees.small_tree(rng, max_nodes=6), reopen=5, osfs=(i % 2 == 0), spellings=["", "slash", "dot", "dslash", "slash"])
            add("wide", isotrees.wide_tree(rng, 150, 12), reopen=4, parallel=True)
            add("deep", isotrees.deep_tree(rng, 7), reopen=3)
            add("ps3", isotrees.ps3_tree(rng), ps3=True, reopen=3)
            add("ps3-par", isotrees.ps3_tree(rng), ps3=True, reopen=6, parallel=True)
            # PS3 mode with a PARAM.SFO of several keys around TITLE_ID, many opens at once
            for i in range(3 if not full else 12):
                add("ps3-par-keys%d" % i, isotrees.ps3_tree(rng, "BLUS12345", rng.randrange(1, 6), rng.randrange(1, 6)), ps3=True, reopen=16, parallel=True, burst=40,
                    titleId=["BLUS", "12345"])
            # later: time stamps change (and nothing else may)
            # other images are built in between (another directory, the same directory in the other mode)
            for i in range(4 if not full else 30):
                t = isotrees.small_tree(rng, max_nodes=rng.choice([3, 8])) + [srv.dnode(["other"], 1500000000)] + \
                    [srv.fnode(["other", "o%d.bin" % k], rng.choice([1, 3000, 70000]), cid="oth%d_%d" % (i, k), mtime=1500000001 + k) for k in range(rng.randrange(1, 12))] + \
                    [srv.dnode(["other", "deep%d" % k], 1500000100 + k) for k in range(rng.randrange(0, 40))]
                add("between%d" % i, t, reopen=3, between=["other"])
            add("between-ps3", isotrees.ps3_tree(rng) + [srv.dnode(["other"], 1500000000), srv.fnode(["other", "x.bin"], 5000, cid="othx", mtime=1500000001)],
                ps3=True, reopen=3, between=["other"])
            # odd time stamps: the epoch itself, before it, far future
            odd = isotrees.small_tree(rng, max_nodes=6) + [srv.fnode(["d", "EPOCH.BIN"], 10, cid="ep0", mtime=-1), srv.fnode(["d", "BEFORE.BIN"], 10, cid="ep1", mtime=-86400 * 400),
                                                           srv.fnode(["d", "FUTURE.BIN"], 10, cid="ep2", mtime=4102444800), srv.dnode(["d", "epochdir"], -1)]
            add("later-odd-times", odd, reopen=2, sleepMs=1100)
            add("later", isotrees.small_tree(rng, max_nodes=8), reopen=2, sleepMs=1100)
            add("ps3-later", isotrees.ps3_tree(rng), ps3=True, reopen=2, sleepMs=1100)
        srv.run_and_validate(ctx, cases, rep, module="IsoCursorTrace.tla", cfg="TR_IsoCursor.cfg")

        # over the network: two connections open the same directory and read by absolute offset across a reconnect
        sctx = srv.SrvCtx(scratch, harness, specdir, proto)
        worlds = []
        for i in range(3 if not full else 20):
            nodes = [dict(x) for x in isotrees.small_tree(rng, max_nodes=8)]
            offs = [0, 32768, 34816, 53248, 60000, 100000]
            c1 = [{"op": "OPEN_FILE", "path": "/***DVD***/d"}] + [{"op": "READ_FILE", "limit": 4096, "off": o} for o in offs[:3]]
            c2 = [{"op": "OPEN_FILE", "path": "/***DVD***/d"}] + [{"op": "READ_FILE", "limit": 4096, "off": o} for o in offs[3:]] + \
                 [{"op": "OPEN_FILE", "path": "/***DVD***/d"}, {"op": "READ_FILE", "limit": 70000, "off": 30000}]
            worlds.append({"name": "net%d" % i, "aw": False, "nodes": nodes, "views": [{"vk": "dvd", "p": ["d"]}],
                           "conns": [{"id": 1, "reqs": c1}, {"id": 2, "reqs": c2}], "schedule": rng.choice(["seq", "rr"])})
        # member files the server's file system would transform when served on their own (a redump image with its key beside it,
        # a 3k3y image): inside a generated image they are plain members on every route
        KEY = "0f1e2d3c4b5a69788796a5b4c3d2e1f0"
        for i in range(1 if not full else 4):
            t = 1500000000
            g = srv.fnode(["d", "PS3ISO", "g.iso"], 8 * 2048, cid="c18_enc%d" % i, mtime=t + 3)
            g["enc"] = {"kind": "redump", "key": KEY, "regions": [[0, 2], [4, 6], [7, 8]], "sectors": 8, "extraLen": 0, "plainName": "c18_plain%d" % i}
            k = srv.fnode(["d", "PS3ISO", "g.dkey"], 32, cid="c18_dkey%d" % i, mtime=t + 4)
            k["raw"] = KEY.encode().hex()
            k3 = srv.fnode(["d", "disc1.iso"], 6 * 2048, cid="c18_3k3y%d" % i, mtime=t + 5)
            k3["enc"] = {"kind": "3k3y-enc", "key": KEY, "regions": [[0, 2], [4, 6]], "sectors": 6, "extraLen": 0, "plainName": "c18_3kplain%d" % i}
            nodes = [srv.dnode(["d"], t), srv.dnode(["d", "PS3ISO"], t + 1), g, k, k3, srv.fnode(["d", "z.bin"], 100 + i, cid="c18_z%d" % i, mtime=t + 6)]
            rd = [{"op": "READ_FILE", "limit": 65536, "off": o} for o in (0, 65536, 131072)]
            worlds.append({"name": "net-members%d" % i, "aw": False, "nodes": nodes, "views": [{"vk": "dvd", "p": ["d"]}],
                           "conns": [{"id": 1, "reqs": [{"op": "OPEN_FILE", "path": "/***DVD***/d"}] + rd},
                                     {"id": 2, "reqs": [{"op": "OPEN_FILE", "path": "/***DVD***/d"}] + rd[::-1]}], "schedule": "seq"})
        if not replay:
            srv.run_and_validate(sctx, worlds, rep)
        rep.cov["rule"] = ("trees x {3 successive opens, 8 concurrent opens, opens after 1.1 s, PS3 mode, OsFs/BasePathFs}; every later image "
                           "compared byte-wise with the first, outside the VarFields of IsoFormat.tla; network: two connections reading one "
                           "directory's image by absolute offset, also with member files (redump image + key, 3k3y image) the file system would "
                           "transform when served on their own; distinct_nontrivial = cases accepted")
        rep.cov["distinct_nontrivial"] = rep.cov["traces_validated_against_impl"]
        rep.cov["samples"] = [{"case": c["name"], "reopen": c.get("reopen"), "parallel": c.get("parallel", False)} for c in cases[:3]]
    return rep.finish()
