"""C18 re-opening an unchanged directory yields the same image layout."""
import json
import os
import random

import common
import isotrees
import srv


def run(tier, seed, replay=None):
    rep = common.Report("C18", tier, seed, "model_checking")
    rng = random.Random(seed * 961748941 + 18)
    full = tier != "quick"
    with common.Scratch("c18-") as scratch:
        harness = common.build_harness(scratch)
        specdir = common.prepare_spec_dir(scratch)
        proto = srv.export_proto(specdir)
        ctx = srv.SrvCtx(scratch, harness, specdir, None, sub="viso", key="cases", start_ev="Open")
        if replay:
            cases = json.load(open(os.path.join(replay, "script.json")))["cases"]
        else:
            cases = []

            def add(name, nodes, ps3=False, **kw):
                c = {"name": name, "nodes": nodes, "dir": ["d"], "ps3": ps3, "titleId": ["BLES", "01234"] if ps3 else ["", ""], "ops": []}
                c.update(kw)
                cases.append(c)
            n = 12 if not full else 120
            for i in range(n):
                t = isotrees.small_tree(rng, max_nodes=rng.choice([2, 5, 9, 14]))
                add("seq%d" % i, t, reopen=3)
                add("par%d" % i, t, reopen=8, parallel=True, osfs=(i % 3 == 0))
            add("wide", isotrees.wide_tree(rng, 150, 12), reopen=4, parallel=True)
            add("deep", isotrees.deep_tree(rng, 7), reopen=3)
            add("ps3", isotrees.ps3_tree(rng), ps3=True, reopen=3)
            add("ps3-par", isotrees.ps3_tree(rng), ps3=True, reopen=6, parallel=True)
            # later: time stamps change (and nothing else may)
            add("later", isotrees.small_tree(rng, max_nodes=8), reopen=2, sleepMs=1100)
            add("ps3-later", isotrees.ps3_tree(rng), ps3=True, reopen=2, sleepMs=1100)
        srv.run_and_validate(ctx, cases, rep, module="IsoCursorTrace.tla", cfg="TR_IsoCursor.cfg")

        # over the network: two connections open the same directory and read by absolute offset across a reconnect
        sctx = srv.SrvCtx(scratch, harness, specdir, proto)
        worlds = []
        for i in range(3 if not full else 20):
            nodes = [dict(x) for x in isotrees.small_tree(rng, max_nodes=8)]
            offs = [0, 32768, 34816, 53248, 60000, 100000]
            c1 = [{"op": "OPEN_FILE", "path": "/***DVD***/d"}] + [{"op": "READ_FILE", "limit": 4096, "off": o} for o in offs[:3]]
            c2 = [{"op": "OPEN_FILE", "path": "/***DVD***/d"}] + [{"op": "READ_FILE", "limit": 4096, "off": o} for o in offs[3:]] + \
                 [{"op": "OPEN_FILE", "path": "/***DVD***/d"}, {"op": "READ_FILE", "limit": 70000, "off": 30000}]
            worlds.append({"name": "net%d" % i, "aw": False, "nodes": nodes, "views": [{"vk": "dvd", "p": ["d"]}],
                           "conns": [{"id": 1, "reqs": c1}, {"id": 2, "reqs": c2}], "schedule": rng.choice(["seq", "rr"])})
        if not replay:
            srv.run_and_validate(sctx, worlds, rep)
        rep.cov["rule"] = ("trees x {3 successive opens, 8 concurrent opens, opens after 1.1 s, PS3 mode, OsFs/BasePathFs}; every later image "
                           "compared byte-wise with the first, outside the VarFields of IsoFormat.tla; network: two connections reading one "
                           "directory's image by absolute offset; distinct_nontrivial = cases accepted")
        rep.cov["distinct_nontrivial"] = rep.cov["traces_validated_against_impl"]
        rep.cov["samples"] = [{"case": c["name"], "reopen": c.get("reopen"), "parallel": c.get("parallel", False)} for c in cases[:3]]
    return rep.finish()
