"""C02 served bytes equal stored bytes for every offset and length."""
import json
import os
import random

import common
import srv

SIZES = [0, 1, 2047, 2048, 2049, 65535, 65536, 65537, 200000]


def grid(size, rng, full):
    offs = sorted({0, 1, max(0, size - 1), size, size + 1, 2047, 2048, 2049, 65535, 65536, 65537, size // 2, size + 70000})
    far = [2 ** 40, 2 ** 44 - 1, 2 ** 44, 2 ** 53 + 1, 2 ** 62 - 1, 2 ** 63 - 1, 2 ** 63, 2 ** 64 - 1]     # far past the end, also past what the host file system seeks to
    lims = sorted({0, 1, 2047, 2048, 2049, 65535, 65536, 65537, max(0, size - 1), size, size + 1, 131072 + 5})
    pairs = [(o, l) for o in offs for l in lims]
    if not full:
        pairs = rng.sample(pairs, min(len(pairs), 28))
    return pairs + [(o, l) for o in (far if full else rng.sample(far, 2)) for l in (1, 70000)]


def run(tier, seed, replay=None):
    rep = common.Report("C02", tier, seed, "model_checking")
    rng = random.Random(seed * 32452843 + 2)
    full = tier != "quick"
    with common.Scratch("c02-") as scratch:
        harness = common.build_harness(scratch)
        specdir = common.prepare_spec_dir(scratch)
        proto = srv.export_proto(specdir)
        ctx = srv.SrvCtx(scratch, harness, specdir, proto)
        if replay:
            worlds = json.load(open(os.path.join(replay, "script.json")))["worlds"]
            srv.run_and_validate(ctx, worlds, rep)
            rep.cov["samples"] = [w["name"] for w in worlds]
            return rep.finish()
        worlds = []
        t = 1400000000
        # (a) plain files of boundary sizes: the (offset, limit) grid with both read commands
        for size in SIZES:
            nodes = [srv.dnode(["d"], t), srv.fnode(["d", "x.bin"], size, cid="p%d" % size, mtime=t + size % 1000 + 1),
                     srv.fnode(["other.bin"], 5000, cid="other", mtime=t + 7)]
            pairs = grid(size, rng, full)
            reqs = [{"op": "OPEN_FILE", "path": "/d/x.bin"}]
            crit = []
            for o, l in pairs:
                reqs.append({"op": "READ_FILE", "limit": l, "off": o})
                if rng.random() < 0.15:   # interleave other requests: they must not disturb the open file
                    reqs.append(rng.choice([{"op": "STAT_FILE", "path": "/other.bin"}, {"op": "OPEN_DIR", "path": "/d"},
                                            {"op": "READ_DIR_ENTRY"}, {"op": "GET_DIR_SIZE", "path": "/d"}]))
                if o + l <= size:
                    reqs.append({"op": "READ_FILE_CRITICAL", "limit": l, "off": o})
                else:
                    crit.append((o, l))
            conns = [{"id": 1, "reqs": reqs}]
            # unsatisfiable critical reads end the connection: one connection each
            for i, (o, l) in enumerate(crit if full else crit[:6]):
                conns.append({"id": 2 + i, "reqs": [{"op": "OPEN_FILE", "path": "/d/x.bin"},
                                                    {"op": "READ_FILE_CRITICAL", "limit": l, "off": o}]})
            worlds.append({"name": "plain-%d" % size, "aw": False, "nodes": nodes, "conns": conns})
        # (b) a sparse file past 4 GiB
        big = 4 * 1024 ** 3 + 5
        isl = [(0, 8192), (2 ** 31 - 4096, 8192), (2 ** 32 - 4096, 8192), (big - 4096 - 5, 4096 + 5)]
        nodes = [srv.fnode(["big.bin"], big, cid="bigsparse", mtime=t + 99, islands=isl)]
        reqs = [{"op": "OPEN_FILE", "path": "/big.bin"}]
        for o in [0, 4096, 2 ** 31 - 4096, 2 ** 31 - 1, 2 ** 31, 2 ** 32 - 4096, 2 ** 32 - 1, 2 ** 32, 2 ** 32 + 1, big - 4101, big - 1, big, big + 1, big + 2 ** 33]:
            for l in [1, 2048, 4095]:
                reqs.append({"op": "READ_FILE", "limit": l, "off": o})
                if o + l <= big:
                    reqs.append({"op": "READ_FILE_CRITICAL", "limit": l, "off": o})
        reqs.append({"op": "READ_FILE_CRITICAL", "limit": 100, "off": big - 50})
        worlds.append({"name": "sparse-4g", "aw": False, "nodes": nodes, "conns": [{"id": 1, "reqs": reqs}]})
        # (c) a generated image served through both virtual prefixes
        for vk, prefix in (("dvd", "***DVD***"), ("ps3", "***PS3***")):
            nodes = [srv.dnode(["game"], t), srv.dnode(["game", "PS3_GAME"], t + 1), srv.dnode(["game", "PS3_GAME", "USRDIR"], t + 2),
                     srv.fnode(["game", "PS3_GAME", "USRDIR", "EBOOT.BIN"], 70001, cid="eboot", mtime=t + 3),
                     srv.fnode(["game", "PS3_GAME", "ICON0.PNG"], 2049, cid="icon", mtime=t + 4),
                     srv.fnode(["game", "readme.txt"], 1, cid="readme", mtime=t + 5),
                     param_sfo(["game", "PS3_GAME", "PARAM.SFO"], "BLES01234", t + 6)]
            reqs = [{"op": "OPEN_FILE", "path": "/%s/game" % prefix}]
            # offsets around sector / file / end-of-image boundaries are found by reading: use a coarse + boundary grid
            for o in [0, 1, 2047, 2048, 32768, 32769, 34816, 36864, 40000, 53248, 55296, 57344, 57345, 60000, 65536, 100000, 131071, 131072, 200000, 10 ** 6]:
                for l in ([1, 2048, 4097, 70000] if full else [rng.choice([1, 2048, 4097, 70000])]):
                    reqs.append({"op": "READ_FILE", "limit": l, "off": o})
            conns = [{"id": 1, "reqs": reqs},
                     {"id": 2, "reqs": [{"op": "OPEN_FILE", "path": "/%s/game" % prefix}, {"op": "READ_FILE_CRITICAL", "limit": 8192, "off": 32768},
                                        {"op": "READ_FILE_CRITICAL", "limit": 65536, "off": 0}, {"op": "READ_FILE_CRITICAL", "limit": 4096, "off": 10 ** 7}]}]
            worlds.append({"name": "viso-" + vk, "aw": False, "nodes": nodes, "views": [{"vk": vk, "p": ["game"]}], "conns": conns})
        # (c') decrypted views: a redump image with its key beside it, a 3k3y image with its embedded key
        KEY = "a0a1a2a3a4a5a6a7a8a9aaabacadaeaf"
        S = 2048
        for kind in ("redump", "3k3y-enc"):
            nsec = 24
            img = srv.fnode(["PS3ISO", "g.iso"], nsec * S, cid="c02_enc_" + kind, mtime=t + 11)
            img["enc"] = {"kind": kind, "key": KEY, "regions": [[0, 3], [9, 12], [20, 24]], "sectors": nsec, "extraLen": 0, "plainName": "c02_plain_" + kind}
            img["vcid"] = "c02_plain_" + kind + ("~masked" if kind != "redump" else "")
            nodes = [srv.dnode(["PS3ISO"], t + 10), img]
            if kind == "redump":
                k = srv.fnode(["PS3ISO", "g.dkey"], 32, cid="c02_dkey", mtime=t + 12)
                k["raw"] = KEY.encode().hex()
                nodes.append(k)
            pts = sorted({0, 1, 0xF70, 0x1070, 3 * S - 1, 3 * S, 3 * S + 1, 4 * S, 4 * S + 5, 8 * S, 9 * S - 1, 9 * S, 9 * S + 1, 12 * S, 13 * S, 19 * S + 2047, 20 * S,
                          nsec * S - 1, nsec * S, nsec * S + 1})
            lims = [1, 100, 511, 512, 2047, 2048, 2049, 3000, 4096, 6000, 65536]
            pairs = [(o, l) for o in pts for l in lims]
            if not full:
                pairs = rng.sample(pairs, 60) + [(4 * S, 100), (6 * S, 3000), (12 * S, 2049)]
            reqs = [{"op": "OPEN_FILE", "path": "/PS3ISO/g.iso"}]
            for o, l in pairs:
                reqs.append({"op": "READ_FILE", "limit": l, "off": o})
                if o + l <= nsec * S:
                    reqs.append({"op": "READ_FILE_CRITICAL", "limit": l, "off": o})
            worlds.append({"name": "decrypted-" + kind, "aw": False, "nodes": nodes, "conns": [{"id": 1, "reqs": reqs}]})
        # (d) random interleavings
        for i in range(10 if not full else 80):
            nodes_r = srv.basic_world(rng, big=(i % 5 == 0))
            worlds.append({"name": "rand%d" % i, "aw": False, "nodes": nodes_r,
                           "conns": [{"id": 1, "reqs": read_heavy(rng, nodes_r, 40)}]})
        srv.run_and_validate(ctx, worlds, rep)
        rep.cov["rule"] = ("files of boundary sizes x (offset, limit) grid around size / 2 KiB / 64 KiB boundaries x both read commands; "
                           "sparse 4 GiB+5 file; generated images (plain and PS3); decrypted views (redump + key file, 3k3y) around sector and region "
                           "boundaries; interleaved other requests; "
                           "distinct_nontrivial = worlds accepted")
        rep.cov["distinct_nontrivial"] = rep.cov["traces_validated_against_impl"]
        rep.cov["samples"] = [worlds[0]["conns"][0]["reqs"][:4], worlds[len(SIZES)]["conns"][0]["reqs"][:4]]
        rep.assumptions += ["reference bytes of a generated image = one sequential library read of the same directory "
                            "(its correctness is C07/C09), documented variable fields masked"]
    return rep.finish()


def read_heavy(rng, nodes, n):
    files = [x for x in nodes if x["kind"] == "file"]
    reqs = []
    size = 0
    for _ in range(n):
        r = rng.random()
        if r < 0.2 or not reqs:
            f = rng.choice(files)
            size = srv.unpos(f["size"])
            reqs.append({"op": "OPEN_FILE", "path": srv.wire(f["p"], rng)})
        elif r < 0.8:
            pts = srv.read_points(size)
            o = rng.choice(pts)
            reqs.append({"op": "READ_FILE", "limit": rng.choice([0, 1, 2048, 65536, 65537, 100000]), "off": o})
        elif r < 0.9:
            o = rng.choice(srv.read_points(size))
            l = rng.choice([0, 1, 2048])
            if o + l <= size:
                reqs.append({"op": "READ_FILE_CRITICAL", "limit": l, "off": o})
        else:
            reqs.append(rng.choice([{"op": "STAT_FILE", "path": "/a"}, {"op": "OPEN_DIR", "path": "/a"}, {"op": "READ_DIR"}]))
    return reqs


def param_sfo(p, title_id, mtime):
    """A minimal well-formed PARAM.SFO with a TITLE_ID entry (input construction)."""
    import struct
    keys = b"TITLE_ID\x00"
    data = title_id.encode() + b"\x00"
    while len(keys) % 4:
        keys += b"\x00"
    key_start = 20 + 16
    data_start = key_start + len(keys)
    hdr = b"\x00PSF" + b"\x01\x01\x00\x00" + struct.pack("<III", key_start, data_start, 1)
    ent = struct.pack("<HHIII", 0, 0x0204, len(data), 16, 0)
    raw = hdr + ent + keys + data.ljust(16, b"\x00")
    n = srv.fnode(p, len(raw), cid="sfo_" + title_id, mtime=mtime)
    n["raw"] = raw.hex()
    return n
