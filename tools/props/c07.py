"""C07 generated ISO contains exactly the source tree, byte for byte."""
import json
import os
import random

import common
import isotrees
import srv

GIB = 1024 ** 3
PROP, CFG = "C07", "TR_IsoContent.cfg"


def cases_for(tier, rng, structure=False):
    full = tier != "quick"
    cases = []

    def add(name, nodes, ps3=False, title=None, osfs=False, nocanon=False):
        cases.append({"name": name, "nodes": nodes, "dir": ["d"], "ps3": ps3, "titleId": title or ["", ""], "decode": True,
                      "osfs": osfs, "noCanon": nocanon, "ops": []})
    add("empty-root", [srv.dnode(["d"], 1500000000)])
    for i in range(40 if not full else 400):
        add("small%d" % i, isotrees.small_tree(rng, max_nodes=rng.choice([1, 2, 3, 5, 8])), osfs=(i % 4 == 0))
    for rn in ["Some Game Folder 01", "BLES01234-" + "X" * 40]:     # the image's own directory has a long name
        cases.append({"name": "root-%d" % len(rn), "nodes": [srv.dnode([rn], 1500000000), srv.fnode([rn, "a.bin"], 2049, cid="rt%d" % len(rn), mtime=1500000001),
                                                              srv.dnode([rn, "sub"], 1500000002), srv.fnode([rn, "sub", "b.bin"], 1, cid="rs%d" % len(rn), mtime=1500000003)],
                      "dir": [rn], "ps3": False, "titleId": ["", ""], "decode": True, "osfs": False, "noCanon": False, "ops": []})
    add("deep8", isotrees.deep_tree(rng, 7))
    # more member files than the process may hold open at once (RLIMIT_NOFILE; 1024 is a common limit, games have thousands of files)
    many = isotrees.wide_tree(rng, 260 if not full else 1500, 4)
    for n in many:
        if n["kind"] == "file" and n["size"] == [0, 0]:
            n.update(srv.fnode(n["p"], 7, cid="nz_" + n["p"][-1], mtime=n["mtime"]))
    add("manyfiles-lowfd", many)
    cases[-1]["nofile"] = 48
    add("wide40", isotrees.wide_tree(rng, 40, 3))
    add("wide300", isotrees.wide_tree(rng, 300 if full else 120, 10))
    add("emptydirs", [srv.dnode(["d"], 1500000000)] + [srv.dnode(["d", "e%d" % i], 1500000001 + i) for i in range(5)]
        + [srv.dnode(["d", "e0", "inner"], 1500000100)])
    # files around and above the 4 GiB extent limit (sparse on disk)
    # a directory whose records end exactly on / next to a sector boundary (primary and Joliet hierarchy): the encoder and the
    # size calculation have to agree, or everything behind it is displaced
    for joliet in (False, True):
        for target in ([2048, 4096] if not full else [2046, 2048, 2050, 4096, 6144]):
            nodes, total = isotrees.exact_fill_tree(target, joliet)
            add("fill-%s-%d-%d" % ("joliet" if joliet else "iso", target, total), nodes)
    add("dirs150", isotrees.wide_tree(rng, 3, 150))     # the Joliet path table needs more sectors than the primary one
    for size in ([4 * GIB - 2048, 4 * GIB + 133, 2 * isotrees.P] if not full else
                 [4 * GIB - 2048, 4 * GIB - 1, 4 * GIB, 4 * GIB + 133, 2 * isotrees.P - 1, 2 * isotrees.P, 2 * isotrees.P + 1, 9 * GIB, 3 * isotrees.P]):
        add("big-%d" % size, isotrees.big_file_tree(size), nocanon=True)
    # members that the server's file system would transform when served on their own: in an image they are stored as they are
    KEY = "00ff11ee22dd33cc44bb55aa66997788"
    g = srv.fnode(["d", "PS3ISO", "g.iso"], 8 * 2048, cid="lib_enc", mtime=1500000003)
    g["enc"] = {"kind": "redump", "key": KEY, "regions": [[0, 2], [4, 6], [7, 8]], "sectors": 8, "extraLen": 0, "plainName": "lib_plain"}
    k = srv.fnode(["d", "PS3ISO", "g.dkey"], 32, cid="lib_dkey", mtime=1500000004)
    k["raw"] = KEY.encode().hex()
    k3 = srv.fnode(["d", "disc1.iso"], 6 * 2048, cid="lib_3k3y", mtime=1500000005)
    k3["enc"] = {"kind": "3k3y-enc", "key": KEY, "regions": [[0, 2], [4, 6]], "sectors": 6, "extraLen": 0, "plainName": "lib_3kplain"}
    add("special-members", [srv.dnode(["d"], 1500000000), srv.dnode(["d", "PS3ISO"], 1500000001), g, k, k3])
    # beyond 4 TiB (sector numbers above 2^31) and beyond what an ISO 9660 volume can address at all (2^32 sectors: refused)
    TIB = 1 << 40
    for size in ([] if not full else [3 * TIB + 5]):      # (about 60 s: hundreds of extents; the model's sector numbers end near 4 TiB)
        add("huge-%d" % size, isotrees.big_file_tree(size), nocanon=True)
    # 2^62 bytes in one sparse file (a memory file system allows it): refused at once, not after building 2^30 extent records
    add("toolarge-tmpfs", [srv.dnode(["d"], 1500000000), srv.fnode(["d", "EXA.BIN"], 2 ** 62, cid="tl_exa", mtime=1500000002, islands=[(0, 4096)])], nocanon=True)
    cases[-1]["tmpfs"] = True
    cases[-1]["memLimitMB"] = 3000
    add("beyond-model-5T", [srv.dnode(["d"], 1500000000), srv.fnode(["d", "FIVE.TIB"], 5 * TIB + 123, cid="tl_5t", mtime=1500000002, islands=[(0, 4096)])], nocanon=True)
    add("toolarge", [srv.dnode(["d"], 1500000000), srv.fnode(["d", "small.bin"], 2049, cid="tl_small", mtime=1500000001),
                     srv.fnode(["d", "TOO.BIG"], 8 * TIB + 4096, cid="tl_big", mtime=1500000002, islands=[(0, 4096)])], nocanon=True)
    # PS3 mode
    add("ps3", isotrees.ps3_tree(rng), ps3=True, title=["BLES", "01234"])
    add("ps3-osfs", isotrees.ps3_tree(rng, "NPUB31337", 2, 3), ps3=True, title=["NPUB", "31337"], osfs=True)
    return cases


DESIGN_GUARDS = {
    # config that has to FAIL -> the invariant that has to be reported
    "C07": [("MC_IsoLayoutBad_modulo.cfg", "Content"), ("MC_IsoLayoutVacuityMulti.cfg", "NeverMulti")],
    "C08": [("MC_IsoLayoutBad_straddle.cfg", "Structure"), ("MC_IsoLayoutBad_dotdot.cfg", "Structure"),
            ("MC_IsoLayoutBad_sharedirs.cfg", "Structure"), ("MC_IsoLayoutVacuityPush.cfg", "NeverPush")],
}


def design(rep, specdir, tier, prop):
    """Design level: the reference layout (spec/IsoLayout.tla) satisfies every clause real images are judged by, for all
    small trees and the chosen wide ones; wrong schemes and "never exercised" claims are refuted (vacuity guards)."""
    cfg = "MC_IsoLayout.cfg" if tier == "quick" else "MC_IsoLayoutThorough.cfg"
    res = common.run_tlc(specdir, "MC_IsoLayout.tla", cfg, workers=common.WORKERS, timeout=7200, stack="1g")
    common.tlc_must_pass(res, "MC_IsoLayout/" + cfg)
    rep.add_tlc(res)
    for gcfg, inv in DESIGN_GUARDS[prop]:
        g = common.run_tlc(specdir, "MC_IsoLayout.tla", gcfg, workers=4, timeout=900, stack="1g")
        if "Invariant %s is violated" % inv not in g.out:
            raise common.CheckError("vacuity guard %s: TLC no longer refutes %s" % (gcfg, inv))
    rep.notes.append("design: %s: %d layout cases satisfy all structure and content clauses; %d wrong-scheme / vacuity configs refuted"
                     % (cfg, res.distinct, len(DESIGN_GUARDS[prop])))


def model_trees(specdir, rep, tier, rng):
    """Model -> code: the small trees MC_IsoLayout enumerates (every placement of <= 2 files with sizes 0 .. 2 extents + 1 in
    <= 3 directories), built for the real generator (sparse where large)."""
    gen = common.run_tlc(specdir, "MC_IsoLayout.tla", "GEN_IsoLayout.cfg", workers=1, timeout=900, stack="1g")
    common.tlc_must_pass(gen, "GEN_IsoLayout")
    rep.add_tlc(gen)
    trees = [json.loads(json.loads(x)) for x in gen.printed("TREE")]
    if tier == "quick":
        big = [t for t in trees if any(f["size"][0] > 2 for d in t for f in d["files"])]
        trees = rng.sample(big, 40) + rng.sample(trees, 40)
    cases = []
    t0 = 1500000000
    for i, t in enumerate(trees):
        nodes = [srv.dnode(["d"] + d["path"], t0 + k) for k, d in enumerate(t)]
        for k, d in enumerate(t):
            for j, f in enumerate(d["files"]):
                size = f["size"][0] * 2048 + f["size"][1]
                nodes.append(srv.fnode(["d"] + d["path"] + [f["name"]], size, cid="mt%d_%d_%d" % (i, k, j), mtime=t0 + 100 + j,
                                       islands=isotrees.big_islands(size) if size > 1 << 20 else None))
        cases.append({"name": "model%d" % i, "nodes": nodes, "dir": ["d"], "ps3": False, "titleId": ["", ""], "decode": True,
                      "osfs": False, "noCanon": any(f["size"][0] > 512 for d in t for f in d["files"]), "ops": []})
    return cases


BSDTAR = next((p for p in ("/root/miniconda/bin/bsdtar", "/usr/bin/bsdtar", "/usr/local/bin/bsdtar") if os.path.exists(p)), None)


def third_party_reader(scratch, harness, rep, tier, rng):
    """An independent ISO 9660 reader (libarchive's bsdtar, where installed) extracts generated images; what it extracts must be
    exactly the source tree: same paths (Joliet names), kinds, sizes and bytes.  This does not go through the harness's own
    decoder: it anchors that decoder's judgement on third-party code."""
    import filecmp
    import subprocess
    if not BSDTAR:
        rep.notes.append("third-party reader: bsdtar not installed, cross-check skipped")
        return
    trees = [("tp-small%d" % i, isotrees.small_tree(rng, max_nodes=rng.choice([3, 8, 15]))) for i in range(6 if tier == "quick" else 40)]
    trees += [("tp-wide", isotrees.wide_tree(rng, 130, 9)), ("tp-deep", isotrees.deep_tree(rng, 6)),
              ("tp-fill", isotrees.exact_fill_tree(2048, True)[0]), ("tp-fill-iso", isotrees.exact_fill_tree(4096, False)[0]),
              ("tp-names", [srv.dnode(["d"], 1500000000), srv.fnode(["d", "n" * 60 + ".bin"], 10, cid="tpn1", mtime=1500000001),     # (Joliet names: 64 characters by the book)
                            srv.fnode(["d", "MiXeD-Case_name.v1.02.iso"], 2049, cid="tpn2", mtime=1500000002), srv.dnode(["d", "Dir.With.Dots"], 1500000003),
                            srv.fnode(["d", "Dir.With.Dots", "in.bin"], 5, cid="tpn3", mtime=1500000004), srv.fnode(["d", "empty"], 0, mtime=1500000005)])]
    ok = 0
    for name, nodes in trees:
        base = os.path.join(scratch, name)
        os.makedirs(base)
        nf = os.path.join(base, "nodes.json")
        json.dump(nodes, open(nf, "w"))
        for args in (["mkworld", "-nodes", nf, "-base", base], ["dumpiso", "-dir", os.path.join(base, "g", "d"), "-ps3", "false", "-out", os.path.join(base, "img.iso")]):
            p = common.run_harness(harness, args, timeout=600)
            if p.returncode != 0:
                raise common.CheckError("harness %s failed: %s" % (args[0], p.stderr[-400:]))
        out = os.path.join(base, "x")
        os.makedirs(out)
        p = subprocess.run([BSDTAR, "-xf", os.path.join(base, "img.iso"), "-C", out], stdout=subprocess.PIPE, stderr=subprocess.PIPE, text=True, timeout=600,
                           env=dict(os.environ, LC_ALL="C.UTF-8", LANG="C.UTF-8"))
        src = os.path.join(base, "g", "d")
        diffs = []
        if p.returncode != 0:
            diffs.append("bsdtar: " + p.stderr.strip()[-300:])

        def walk(root):
            res = {}
            for dp, dns, fns in os.walk(root):
                rel = os.path.relpath(dp, root)
                for d in dns:
                    res[os.path.normpath(os.path.join(rel, d))] = "dir"
                for f in fns:
                    res[os.path.normpath(os.path.join(rel, f))] = os.path.getsize(os.path.join(dp, f))
            return res
        a, b = walk(src), walk(out)
        for k in sorted(set(a) | set(b)):
            if a.get(k) != b.get(k):
                diffs.append("%s: source %r, extracted %r" % (k, a.get(k), b.get(k)))
            elif a[k] != "dir" and not filecmp.cmp(os.path.join(src, k), os.path.join(out, k), shallow=False):
                diffs.append("%s: bytes differ" % k)
        if diffs:
            rep.violation("ThirdParty:" + ("listing" if any("source" in d or "bsdtar" in d for d in diffs) else "bytes"),
                          "libarchive (bsdtar -xf) does not extract the source tree from the image generated for %s:\n%s" % (name, "\n".join(diffs[:12])),
                          {"nodes.json": nodes})
        else:
            ok += 1
        import shutil
        shutil.rmtree(base, ignore_errors=True)
    rep.cov["third_party_reader_trees"] = ok
    rep.notes.append("third-party reader: libarchive extracted %d of %d generated images to exactly the source tree" % (ok, len(trees)))


def network_route(scratch, harness, specdir, rep, tier, rng):
    """The same images over the network (***DVD*** / ***PS3*** prefixes): every byte the real server sends for the whole image is
    compared with the library view decoded above - including trees whose members the server's file system would transform when
    they are served on their own (a redump image with its key, a 3k3y image)."""
    proto = srv.export_proto(specdir)
    sctx = srv.SrvCtx(scratch, harness, specdir, proto)
    KEY = "00ff11ee22dd33cc44bb55aa66997788"
    worlds = []
    t = 1500000000
    for i in range(2 if tier == "quick" else 10):
        g = srv.fnode(["d", "PS3ISO", "g.iso"], 8 * 2048, cid="c07_enc%d" % i, mtime=t + 3)
        g["enc"] = {"kind": "redump", "key": KEY, "regions": [[0, 2], [4, 6], [7, 8]], "sectors": 8, "extraLen": 0, "plainName": "c07_plain%d" % i}
        k = srv.fnode(["d", "PS3ISO", "g.dkey"], 32, cid="c07_dkey%d" % i, mtime=t + 4)
        k["raw"] = KEY.encode().hex()
        k3 = srv.fnode(["d", "disc1.iso"], 6 * 2048, cid="c07_3k3y%d" % i, mtime=t + 5)
        k3["enc"] = {"kind": rng.choice(["3k3y-enc", "3k3y-dec"]), "key": KEY, "regions": [[0, 2], [4, 6]], "sectors": 6, "extraLen": 0, "plainName": "c07_3kplain%d" % i}
        nodes = [srv.dnode(["d"], t), srv.dnode(["d", "PS3ISO"], t + 1), g, k, k3] + \
                [srv.fnode(["d", "f%d.bin" % j], rng.choice([0, 1, 2047, 2048, 2049, 70001]), cid="c07_n%d_%d" % (i, j), mtime=t + 10 + j) for j in range(rng.randrange(1, 5))]
        rd = [{"op": "READ_FILE", "limit": 65536, "off": o} for o in range(0, 5 * 65536, 65536)]
        worlds.append({"name": "net-dvd%d" % i, "aw": False, "nodes": nodes, "views": [{"vk": "dvd", "p": ["d"]}],
                       "conns": [{"id": 1, "reqs": [{"op": "OPEN_FILE", "path": "/***DVD***/d"}] + rd}]})
    ps3 = isotrees.ps3_tree(rng)
    rd = [{"op": "READ_FILE", "limit": 65536, "off": o} for o in range(0, 4 * 65536, 65536)]
    worlds.append({"name": "net-ps3", "aw": False, "nodes": ps3, "views": [{"vk": "ps3", "p": ["d"]}],
                   "conns": [{"id": 1, "reqs": [{"op": "OPEN_FILE", "path": "/***PS3***/d"}] + rd}]})
    srv.run_and_validate(sctx, worlds, rep)


def run(tier, seed, replay=None, prop=PROP, cfg=CFG, extra_cases=None):
    rep = common.Report(prop, tier, seed, "model_checking")
    rng = random.Random(seed * 2750159 + 7)
    with common.Scratch(prop.lower() + "-") as scratch:
        harness = common.build_harness(scratch)
        specdir = common.prepare_spec_dir(scratch)
        srv.export_proto(specdir)
        ctx = srv.SrvCtx(scratch, harness, specdir, None, sub="viso", key="cases", start_ev="Open")
        mod = "IsoCursorTrace.tla"
        if replay:
            cases = json.load(open(os.path.join(replay, "script.json")))["cases"]
        else:
            cases = cases_for(tier, rng)
            if extra_cases:
                cases += extra_cases(tier, rng)
            cases += model_trees(specdir, rep, tier, rng)
        srv.run_and_validate(ctx, cases, rep, module=mod, cfg=cfg, max_rejections=16)
        if not replay:
            design(rep, specdir, tier, prop)
        if not replay and prop == "C07":
            network_route(scratch, harness, specdir, rep, tier, rng)
            third_party_reader(scratch, harness, rep, tier, rng)
        rep.cov["rule"] = ("directory trees (random small trees, depth 8, 40..300 entries, empty directories, sparse files of "
                           "4 GiB-2 KiB .. 9 GiB, PS3 mode) opened through the library (BasePathFs and OsFs); image decoded by the "
                           "fixed-offset reader; TLC evaluates the clauses; distinct_nontrivial = trees whose volume TLC accepted")
        rep.cov["distinct_nontrivial"] = rep.cov["traces_validated_against_impl"]
        rep.cov["samples"] = [{"tree": cases[1]["name"], "nodes": [n["p"] for n in cases[1]["nodes"]]}] if len(cases) > 1 else [cases[0]["name"]]
        rep.assumptions += ["isodec (fixed-offset ECMA-119 / Joliet field extraction driven by IsoFormat.tla) is the trusted decoder",
                            "file content is located through self-identifying patterns; holes of sparse files are only checked to be zero"]
    return rep.finish()
