"""C17 PSX CD sector reads return exactly the 2048 user bytes of each sector."""
import json
import os
import random

import common
import srv

SECTOR_SIZES = [2048, 2328, 2336, 2340, 2352, 2368, 2448]
MIB = 1024 * 1024


def sig_mark(ss, tag):
    """Where a raw CD image with sector size ss carries its signature (input construction)."""
    off = 24 + 16 * ss + (8 if tag == "PSX" else 0)
    return {"off": srv.pos(off), "tag": tag}


def image(name, size, ss, tag, sparse=False, t=1500000000):
    marks = [sig_mark(ss, tag)] if tag else []
    islands = None
    if sparse:
        # pattern only where the session reads: head (signature area + first sectors) and tail
        islands = [(0, 24 + 40 * 2448), (max(0, size - 8 * 2448), min(size, 8 * 2448))]
    return srv.fnode([name], size, cid="cd_" + name.replace(".", "_"), mtime=t, marks=marks, islands=islands)


def cd_reads(rng, size, ss_eff, full):
    last = max(0, (size - 24) // ss_eff - 1)
    pairs = [(0, 1), (0, 0), (1, 2), (2, 5), (5, 2), (7, 1), (3, 3), (last, 1), (max(0, last - 1), 2), (last, 3), (last + 2, 1)]
    if not full:
        pairs = [(0, 1), (5, 2), (2, 5)] + rng.sample(pairs[3:], 3)
    return [{"op": "READ_CD_2048", "start": s, "count": c} for s, c in pairs]


def run(tier, seed, replay=None):
    rep = common.Report("C17", tier, seed, "model_checking")
    rng = random.Random(seed * 15485863 + 17)
    with common.Scratch("c17-") as scratch:
        harness = common.build_harness(scratch)
        specdir = common.prepare_spec_dir(scratch)
        proto = srv.export_proto(specdir)
        ctx = srv.SrvCtx(scratch, harness, specdir, proto)
        if replay:
            worlds = json.load(open(os.path.join(replay, "script.json")))["worlds"]
            srv.run_and_validate(ctx, worlds, rep)
            rep.cov["samples"] = [w["name"] for w in worlds]
            return rep.finish()
        full = tier != "quick"
        # design level: detection and the byte ranges of sector reads agree with a second, integer definition (3 366 cases)
        res = common.run_tlc(specdir, "MC_CdSector.tla", "MC_CdSector.cfg", workers=4, timeout=600, stack="512m")
        common.tlc_must_pass(res, "MC_CdSector")
        rep.add_tlc(res)
        worlds = []
        combos = [(ss, tag) for ss in SECTOR_SIZES for tag in ("CD001", "PSX")]
        size_classes = [("min", 2 * MIB, False), ("mid", 2 * MIB + 70001, False)]
        if full:
            size_classes += [("below", 2 * MIB - 1, False), ("max", 848 * MIB, True), ("above", 848 * MIB + 1, True)]
        else:
            size_classes += [rng.choice([("below", 2 * MIB - 1, False), ("max", 848 * MIB, True), ("above", 848 * MIB + 1, True)])]
        for ss, tag in combos:
            classes = size_classes if full else rng.sample(size_classes, 2)
            for cname, size, sparse in classes:
                nodes = [image("img.bin", size, ss, tag, sparse)]
                # a second image of another sector size, to be opened on the same connection afterwards
                ss2 = rng.choice([s for s in SECTOR_SIZES if s != ss])
                nodes.append(image("other.bin", 2 * MIB + 4096, ss2, rng.choice(["CD001", "PSX"])))
                nodes.append(image("nosig.bin", 2 * MIB + 100, 2352, None))
                detect = 2 * MIB <= size <= 848 * MIB
                eff = ss if detect else 2352
                reqs = [{"op": "READ_CD_2048", "start": 0, "count": 1}] if rng.random() < 0.2 else []   # nothing open: ends the connection
                reqs = [{"op": "OPEN_FILE", "path": "/img.bin"}] + (cd_reads(rng, size, eff, full) if not sparse else
                                                                     [{"op": "READ_CD_2048", "start": s, "count": c} for s, c in [(0, 1), (1, 2), (5, 2), (2, 5)]])
                # the reads above may end the connection (range crossing EOF): keep them last per connection
                safe = [r for r in reqs if r["op"] != "READ_CD_2048" or (24 + (r["start"] + r["count"]) * eff + 0 <= size)]
                conns = [{"id": 1, "reqs": safe + [{"op": "OPEN_FILE", "path": "/other.bin"}, {"op": "READ_CD_2048", "start": 3, "count": 2},
                                                  {"op": "OPEN_FILE", "path": "/nosig.bin"}, {"op": "READ_CD_2048", "start": 4, "count": 1},
                                                  {"op": "OPEN_FILE", "path": "/img.bin"}, {"op": "READ_CD_2048", "start": 6, "count": 2},
                                                  {"op": "OPEN_FILE", "path": "/CLOSEFILE"}, {"op": "READ_CD_2048", "start": 0, "count": 1}]}]
                cid = 2
                for r in reqs:
                    if r not in safe:
                        conns.append({"id": cid, "reqs": [{"op": "OPEN_FILE", "path": "/img.bin"}, r]})
                        cid += 1
                worlds.append({"name": "cd-%d-%s-%s" % (ss, tag, cname), "aw": False, "nodes": nodes, "conns": conns})
        # start sectors whose byte offset passes 2^32: far past the end of a small image (nothing may come back), and existing
        # sectors past 4 GiB in a sparse image (sector size 2352: outside the detection window)
        GIB4 = 1 << 32
        for ss, tag in (combos if full else rng.sample(combos, 4)):
            nodes = [image("img.bin", 2 * MIB + 4096, ss, tag)]
            wrap = -(-GIB4 // ss)
            conns = []
            for j, st in enumerate([wrap, wrap + 1, wrap + 7, 1 << 21, (1 << 22) + 3, (1 << 28) + 1]):
                conns.append({"id": j + 1, "reqs": [{"op": "OPEN_FILE", "path": "/img.bin"}, {"op": "READ_CD_2048", "start": 1, "count": 1},
                                                    {"op": "READ_CD_2048", "start": st, "count": rng.choice([1, 2])}]})
            worlds.append({"name": "cd-wrap-%d-%s" % (ss, tag), "aw": False, "nodes": nodes, "conns": conns, "probe": True})
        big = GIB4 + 3 * MIB
        first = -(-(GIB4 - 24) // 2352)          # first sector that starts at or after 4 GiB
        isl = [(0, 24 + 40 * 2448), (24 + (first - 2) * 2352, 12 * 2352), (big - 8 * 2448, 8 * 2448)]
        bn = srv.fnode(["big.bin"], big, cid="cd_big4g", mtime=1500000000, islands=isl)
        conns = [{"id": 1, "reqs": [{"op": "OPEN_FILE", "path": "/big.bin"}] +
                  [{"op": "READ_CD_2048", "start": st, "count": ct} for st, ct in [(0, 1), (first - 2, 4), (first, 1), (first + 3, 2), (first + 5, 3), (2, 2)]]}]
        worlds.append({"name": "cd-4g", "aw": False, "nodes": [bn], "conns": conns})
        srv.run_and_validate(ctx, worlds, rep)
        rep.cov["rule"] = ("7 sector sizes x 2 signatures x image-size classes around the 2 MiB / 848 MiB window x (start, count) "
                           "incl. start != count, count 0, ranges crossing EOF, start sectors whose byte offset passes 2^32 (small image and a "
                           "sparse image of 4 GiB + 3 MiB), re-open of another sector size; "
                           "distinct_nontrivial = worlds whose traces TLC accepted")
        rep.cov["distinct_nontrivial"] = rep.cov["traces_validated_against_impl"]
        rep.cov["exhaustive"] = full
        rep.cov["samples"] = [{"world": worlds[0]["name"], "reqs": worlds[0]["conns"][0]["reqs"][:4]}]
    return rep.finish()
