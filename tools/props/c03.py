"""C03 request/response framing and the per-connection state machine."""
import json
import os
import random

import common
import srv

PATH_OPS = ["OPEN_DIR", "STAT_FILE", "OPEN_FILE", "GET_DIR_SIZE", "CREATE_FILE", "DELETE_FILE", "MKDIR", "RMDIR"]


def announced_worlds(rng, nodes, proto):
    """WRITE_FILE frames that announce more payload than is sent - up to the largest 32-bit counts - where the bytes that do
    arrive are themselves well-formed requests: they are payload, never commands."""
    import binsrv
    pt = binsrv.Proto(proto)
    inner = pt.encode("STAT_FILE", path="/") + pt.encode("OPEN_DIR", path="/") + pt.encode("READ_DIR")
    worlds = []
    for aw in (True, False):
        for pre in ([], [{"op": "CREATE_FILE", "path": "/up-announce.bin"}, {"op": "WRITE_FILE", "plen": 9, "chunk": "an0"}]):
            for ann in [len(inner) + 1, 70000, 0x7FFFFFFF, 0x80000000, 0x80000001, 0xFFFFFFFF]:
                worlds.append({"name": "announce-%s-%d-%d" % (aw, len(pre), ann), "aw": aw, "nodes": nodes, "probe": True,
                               "conns": [{"id": 1, "reqs": pre + [{"op": "WRITE_FILE", "payloadHex": inner.hex(), "chunk": "annp", "announce": ann}]}]})
    return worlds


def virtual_dir_worlds(rng):
    """OPEN_DIR of directories named through the virtual prefixes (at any depth) followed by every listing command: each request
    gets exactly one response."""
    t = 1500000000
    nodes = [srv.dnode(["a"], t), srv.dnode(["a", "sub"], t + 1), srv.fnode(["a", "sub", "x.bin"], 10, cid="vd_x", mtime=t + 2),
             srv.dnode(["a", "sub", "deep"], t + 3), srv.fnode(["a", "sub", "deep", "y.bin"], 20, cid="vd_y", mtime=t + 4),
             srv.fnode(["a", "top.bin"], 5, cid="vd_t", mtime=t + 5), srv.dnode(["a", "empty"], t + 6)]
    views = [{"vk": vk, "p": p} for vk in ("dvd", "ps3") for p in (["a"], ["a", "sub"], ["a", "sub", "deep"], ["a", "empty"])]
    conns = []
    k = 0
    for prefix in ("***DVD***", "***PS3***"):
        for d in ("a", "a/sub", "a/sub/deep", "a/empty", "a/top.bin", "a/nope"):
            for lst in (["READ_DIR_ENTRY", "READ_DIR_ENTRY"], ["READ_DIR_ENTRY_V2", "READ_DIR"], ["READ_DIR", "READ_DIR_ENTRY"]):
                k += 1
                conns.append({"id": k, "reqs": [{"op": "OPEN_DIR", "path": "/a"}, {"op": "READ_DIR_ENTRY"}, {"op": "OPEN_DIR", "path": "/%s/%s" % (prefix, d)}] +
                              [{"op": o} for o in lst] + [{"op": "STAT_FILE", "path": "/a"}]})
    return [{"name": "virtual-dirs", "aw": False, "nodes": nodes, "views": views, "conns": conns, "probe": True, "quiesce": True}]


def truncation_worlds(rng, nodes):
    """Every truncation point of every request kind, after a short state-setting prefix."""
    worlds = []
    prefixes = [[], [{"op": "OPEN_DIR", "path": "/a"}, {"op": "OPEN_FILE", "path": "/" + "/".join(
        [n for n in nodes if n["kind"] == "file"][0]["p"])}]]
    frames = [({"op": op, "path": "/a/sub"}, 16 + 6) for op in PATH_OPS]
    frames += [({"op": "READ_FILE", "limit": 10, "off": 0}, 16), ({"op": "READ_FILE_CRITICAL", "limit": 1, "off": 0}, 16),
               ({"op": "READ_CD_2048", "start": 0, "count": 1}, 16), ({"op": "READ_DIR"}, 16), ({"op": "READ_DIR_ENTRY"}, 16),
               ({"op": "READ_DIR_ENTRY_V2"}, 16), ({"op": "WRITE_FILE", "plen": 40, "chunk": "wt"}, 16 + 40)]
    for pi, pre in enumerate(prefixes):
        for fr, ln in frames:
            cuts = sorted(set([1, 2, 3, 8, 15, 16, 17, ln - 1]) & set(range(1, ln)))
            for cut in cuts:
                r = dict(fr)
                r["cut"] = cut
                worlds.append({"name": "trunc-%d-%s-%d" % (pi, fr["op"], cut), "aw": True, "nodes": nodes,
                               "conns": [{"id": 1, "reqs": pre + [r]}], "probe": True, "readChunk": rng.choice([0, 3])})
    return worlds


def run(tier, seed, replay=None):
    rep = common.Report("C03", tier, seed, "model_checking")
    rng = random.Random(seed * 7919 + 3)
    with common.Scratch("c03-") as scratch:
        harness = common.build_harness(scratch)
        specdir = common.prepare_spec_dir(scratch)
        proto = srv.export_proto(specdir)
        ctx = srv.SrvCtx(scratch, harness, specdir, proto)
        if replay:
            worlds = json.load(open(os.path.join(replay, "script.json")))["worlds"]
            srv.run_and_validate(ctx, worlds, rep)
            rep.cov["samples"] = [w["name"] for w in worlds]
            return rep.finish()

        # 1. design level: the specification itself (exhaustive, small scope)
        mcs = [("MC_Protocol.cfg", 12)] if tier == "quick" else [("MC_Protocol.cfg", 12), ("MC_ReadOnly.cfg", 12), ("MC_Write2.cfg", 12)]
        for cfg, wk in mcs:
            res = common.run_tlc(specdir, "MC_Ps3NetSrv.tla", cfg, workers=wk, timeout=1500, heap="12g")
            common.tlc_must_pass(res, cfg)
            rep.add_tlc(res)
            rep.notes.append("%s: %d states, %d distinct, depth %d" % (cfg, res.generated, res.distinct, res.depth))

        # 2. model -> code: one session per (abstract state x request) transition of the model
        world, cases, gres = srv.generate_sessions(specdir, "MC_Ps3NetSrv.tla", "GEN_Protocol.cfg",
                                                   {"MaxReqs": 3 if tier == "quick" else 4})
        rep.add_tlc(gres)
        nodes = srv.model_nodes(world)
        views = world["views"]
        if tier == "quick" and len(cases) > 1500:
            cases = rng.sample(cases, 1500)
        worlds = []
        for i, reqs in enumerate(cases):
            worlds.append({"name": "gen%d" % i, "aw": True, "nodes": nodes, "views": views,
                           "conns": [{"id": 1, "reqs": [srv.abstract_to_req(a) for a in reqs]}]})
        gen_n = len(worlds)

        # 3. every truncation point of every request kind
        tnodes = srv.basic_world(rng)
        worlds += truncation_worlds(rng, tnodes)
        worlds += announced_worlds(rng, tnodes, proto)
        worlds += virtual_dir_worlds(rng)

        # 4. code -> model: seeded random sessions over all opcodes
        n = 40 if tier == "quick" else 400
        for i in range(n):
            nodes_r = srv.basic_world(rng)
            aw = rng.random() < 0.6
            conns = [{"id": 1, "reqs": srv.random_session(rng, nodes_r, nreq=40, aw=aw)}]
            worlds.append({"name": "rand%d" % i, "aw": aw, "nodes": nodes_r, "conns": conns, "probe": True,
                           "readChunk": rng.choice([0, 0, 1, 7, 100])})

        # batches keep TLC's trace files manageable
        B = 4000
        for b in range(0, len(worlds), B):
            srv.run_and_validate(ctx, worlds[b:b + B], rep)
        rep.cov["rule"] = ("sessions = (a) one per transition (abstract state x request) of the TLC model, (b) every truncation "
                           "point of every request kind, (c) seeded random sessions; distinct_nontrivial = sessions whose "
                           "complete trace TLC accepted")
        rep.cov["distinct_nontrivial"] = rep.cov["traces_validated_against_impl"]
        rep.cov["generated_sessions"] = gen_n
        rep.cov["samples"] = [worlds[0]["conns"][0]["reqs"], worlds[gen_n]["conns"][0]["reqs"], worlds[-1]["conns"][0]["reqs"][:6]]
        rep.assumptions += ["in-memory net.Conn stands for a TCP connection (byte-exact, quiescence observable)",
                            "responses are decoded by a generic interpreter of the layout table exported from Proto.tla"]
    return rep.finish()
