"""C03 request/response framing and the per-connection state machine."""
import json
import os
import random

import common
import srv


def run(tier, seed, replay=None):
    rep = common.Report("C03", tier, seed, "model_checking")
    rng = random.Random(seed * 7919 + 3)
    with common.Scratch("c03-") as scratch:
        harness = common.build_harness(scratch)
        specdir = common.prepare_spec_dir(scratch)
        proto = srv.export_proto(specdir)
        ctx = srv.SrvCtx(scratch, harness, specdir, proto)
        if replay:
            worlds = json.load(open(os.path.join(replay, "script.json")))["worlds"]
        else:
            worlds = []
            n = 12 if tier == "quick" else 120
            for i in range(n):
                nodes = srv.basic_world(rng)
                aw = rng.random() < 0.6
                conns = [{"id": 1, "reqs": srv.random_session(rng, nodes, nreq=30, aw=aw)}]
                worlds.append({"name": "rand%d" % i, "aw": aw, "nodes": nodes, "conns": conns, "probe": True})
        srv.run_and_validate(ctx, worlds, rep)
        rep.cov["rule"] = "random sessions over all opcodes; distinct = worlds whose whole trace TLC accepted"
        rep.cov["distinct_nontrivial"] = rep.cov["traces_validated_against_impl"]
        rep.cov["samples"] = [worlds[0]["conns"][0]["reqs"][:5]] if worlds else []
    return rep.finish()
