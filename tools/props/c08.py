"""C08 generated ISO is a structurally valid ISO 9660 + Joliet (+PS3) volume."""
import isotrees
import srv
from props import c07


def extra(tier, rng):
    full = tier != "quick"
    cases = []

    def add(name, nodes, ps3=False, title=None):
        cases.append({"name": name, "nodes": nodes, "dir": ["d"], "ps3": ps3, "titleId": title or ["", ""], "decode": True, "ops": []})
    t = 1500000000
    # name lengths up to the file system's limit, non-ASCII names, names that collide after mapping
    for ln in ([8, 30, 31, 64, 110, 111, 200, 255] if full else [31, 111, 255]):
        add("namelen%d" % ln, [srv.dnode(["d"], t), srv.fnode(["d", "n" * ln], 10, cid="nl%d" % ln, mtime=t + 1),
                                srv.dnode(["d", "D" * ln], t + 2), srv.fnode(["d", "D" * ln, "in.bin"], 5, cid="in%d" % ln, mtime=t + 3)])
    add("nonascii", [srv.dnode(["d"], t), srv.fnode(["d", "ümläut.bin"], 10, cid="uml", mtime=t + 1),
                     srv.fnode(["d", "ゲーム.iso"], 2049, cid="jp", mtime=t + 2), srv.dnode(["d", "папка"], t + 3),
                     srv.fnode(["d", "sp ace+plus.txt"], 1, cid="sp", mtime=t + 4)])
    add("collide", [srv.dnode(["d"], t), srv.fnode(["d", "readme.txt"], 10, cid="r1", mtime=t + 1), srv.fnode(["d", "README.TXT"], 20, cid="r2", mtime=t + 2),
                    srv.dnode(["d", "Dir"], t + 3), srv.dnode(["d", "DIR"], t + 4), srv.fnode(["d", "Dir", "a"], 1, cid="da", mtime=t + 5),
                    srv.fnode(["d", "DIR", "b"], 2, cid="db", mtime=t + 6), srv.fnode(["d", "a b"], 3, cid="ab1", mtime=t + 7), srv.fnode(["d", "a_b"], 4, cid="ab2", mtime=t + 8)])
    # the directory that becomes the image: its name goes into the volume identifiers (32 / 128 bytes; half as many characters
    # in the supplementary descriptor)
    for ln in ([8, 16, 17, 32, 33, 64, 65, 128, 129, 255] if full else [16, 17, 33, 65, 200]):
        rn = "R" * ln
        cases.append({"name": "rootname%d" % ln, "nodes": [srv.dnode([rn], t), srv.fnode([rn, "a.bin"], 10, cid="rn%d" % ln, mtime=t + 1)],
                      "dir": [rn], "ps3": False, "titleId": ["", ""], "decode": True, "ops": []})
    for k, rn in enumerate(["ゲームのディレクトリ名前", "папка с игрой номер один", "my game (EU) [v1.02] + dlc"]):
        cases.append({"name": "rootname-u%d" % k, "nodes": [srv.dnode([rn], t), srv.fnode([rn, "a.bin"], 10, cid="rnu%d" % k, mtime=t + 1)],
                      "dir": [rn], "ps3": False, "titleId": ["", ""], "decode": True, "ops": []})
    # a file and a directory whose identifiers collide after mapping (empty and non-empty file, either spelling first)
    k = 0
    for fname, dname in [("a b", "a_b"), ("a_b", "a b"), ("x", "X"), ("X", "x"), ("q+1", "q_1")]:
        for fsize in (0, 5):
            k += 1
            add("collide-filedir%d" % k, [srv.dnode(["d"], t), srv.fnode(["d", fname], fsize, cid="cfd%d" % k, mtime=t + 1),
                                          srv.dnode(["d", dname], t + 2), srv.fnode(["d", dname, "inner.bin"], 3, cid="cfi%d" % k, mtime=t + 3),
                                          srv.fnode(["d", "zz-empty"], 0, cid="", mtime=t + 4)])
    # directory fan-out around the sector size: records reach and cross a sector boundary
    for n in ([1, 39, 40, 41, 60, 300] if full else [40, 60]):
        add("fan%d" % n, isotrees.wide_tree(rng, n, 0))
    add("dirs%d" % (1100 if full else 120), isotrees.wide_tree(rng, 3, 1100 if full else 120))
    # directories whose records end exactly on / just before / just after a sector boundary, in either hierarchy
    for joliet in (False, True):
        for target in ([2046, 2048, 2050, 4096] if full else [2048, 2050, 4096]):
            nodes, total = isotrees.exact_fill_tree(target, joliet)
            add("fill-%s-%d-%d" % ("joliet" if joliet else "iso", target, total), nodes)
    # PARAM.SFO shapes: any key order, any number of entries
    for b, a in ([(0, 0), (1, 0), (0, 1), (5, 6)] if full else [(3, 2)]):
        add("sfo-%d-%d" % (b, a), isotrees.ps3_tree(rng, "BCES00104", b, a), ps3=True, title=["BCES", "00104"])
    add("sfo-realistic", isotrees.ps3_tree(rng, "BCES00104", 0, 0, realistic=True), ps3=True, title=["BCES", "00104"])
    add("sfo-realistic-npub", isotrees.ps3_tree(rng, "NPUB31337", 1, 2, realistic=True), ps3=True, title=["NPUB", "31337"])
    return cases


def run(tier, seed, replay=None):
    return c07.run(tier, seed, replay, prop="C08", cfg="TR_IsoStructure.cfg", extra_cases=extra)
