"""C13 handles are always released; I/O faults never produce wrong data."""
import copy
import json
import os
import random

import common
import srv

KEY = "00112233445566778899aabbccddeeff"


def scenario_nodes():
    t = 1480000000
    nodes = [srv.dnode(["a"], t), srv.fnode(["a", "f1.bin"], 3000, cid="s_f1", mtime=t + 1), srv.fnode(["a", "f2.bin"], 2049, cid="s_f2", mtime=t + 2),
             srv.fnode(["a", "f3.bin"], 70000, cid="s_f3", mtime=t + 3), srv.dnode(["a", "sub"], t + 4), srv.fnode(["a", "sub", "g.bin"], 10, cid="s_g", mtime=t + 5),
             srv.lnode(["a", "lnk"], ["a", "f1.bin"]), srv.dnode(["PS3ISO"], t + 6)]
    img = srv.fnode(["PS3ISO", "game.iso"], 8 * 2048, cid="enc_game", mtime=t + 7)
    img["enc"] = {"kind": "redump", "key": KEY, "regions": [[0, 2], [4, 6], [7, 8]], "sectors": 8, "extraLen": 0, "plainName": "plain_game"}
    img["vcid"] = "plain_game"          # a redump image with its key beside it is served decrypted (C11)
    nodes.append(img)
    # a raw CD image (2336-byte sectors, PLAYSTATION signature): its sector size is probed at open
    ss = 2336
    nodes.append(srv.fnode(["a", "psx.bin"], 2 * 1024 * 1024 + 2336 * 3, cid="s_psx", mtime=t + 9,
                           marks=[{"off": srv.pos(24 + 16 * ss + 8), "tag": "PSX"}]))
    k = srv.fnode(["PS3ISO", "game.dkey"], 32, cid="dkey", mtime=t + 8)
    k["raw"] = KEY.encode().hex()
    nodes.append(k)
    # a second redump image whose key exists only in the sibling REDKEY directory (the second lookup branch of the key probe)
    img2 = srv.fnode(["PS3ISO", "other.iso"], 8 * 2048, cid="enc_other", mtime=t + 10)
    img2["enc"] = {"kind": "redump", "key": KEY, "regions": [[0, 2], [4, 6], [7, 8]], "sectors": 8, "extraLen": 0, "plainName": "plain_other"}
    img2["vcid"] = "plain_other"
    nodes.append(img2)
    nodes.append(srv.dnode(["REDKEY"], t + 11))
    k2 = srv.fnode(["REDKEY", "other.dkey"], 32, cid="dkey2", mtime=t + 12)
    k2["raw"] = KEY.encode().hex()
    nodes.append(k2)
    return nodes


SESSIONS = {
    "plain": [{"op": "OPEN_FILE", "path": "/a/f3.bin"}, {"op": "READ_FILE", "limit": 70000, "off": 0}, {"op": "READ_FILE_CRITICAL", "limit": 2048, "off": 1000},
              {"op": "OPEN_FILE", "path": "/a/f1.bin"}, {"op": "READ_FILE", "limit": 100, "off": 2950}, {"op": "STAT_FILE", "path": "/a/lnk"}],
    "viso": [{"op": "OPEN_FILE", "path": "/***DVD***/a"}, {"op": "READ_FILE", "limit": 65536, "off": 32768}, {"op": "READ_FILE", "limit": 70000, "off": 60000},
             {"op": "READ_FILE_CRITICAL", "limit": 4096, "off": 57344}, {"op": "OPEN_FILE", "path": "/***DVD***/a"}, {"op": "READ_FILE", "limit": 100, "off": 100000}],
    "enc": [{"op": "OPEN_FILE", "path": "/PS3ISO/game.iso"}, {"op": "READ_FILE", "limit": 5000, "off": 6000}, {"op": "READ_FILE_CRITICAL", "limit": 2048, "off": 4096},
            {"op": "OPEN_FILE", "path": "/CLOSEFILE"}],
    "encred": [{"op": "OPEN_FILE", "path": "/PS3ISO/other.iso"}, {"op": "READ_FILE", "limit": 5000, "off": 1000}, {"op": "OPEN_FILE", "path": "/PS3ISO/other.iso"},
               {"op": "READ_FILE_CRITICAL", "limit": 2048, "off": 10240}],
    "cd": [{"op": "OPEN_FILE", "path": "/a/psx.bin"}, {"op": "READ_CD_2048", "start": 1, "count": 2}, {"op": "READ_CD_2048", "start": 5, "count": 1},
           {"op": "STAT_FILE", "path": "/a/psx.bin"}],
    "listing": [{"op": "OPEN_DIR", "path": "/a"}, {"op": "READ_DIR_ENTRY"}, {"op": "READ_DIR_ENTRY"}, {"op": "READ_DIR_ENTRY_V2"}, {"op": "READ_DIR"},
                {"op": "OPEN_DIR", "path": "/a/sub"}, {"op": "READ_DIR"}, {"op": "OPEN_DIR", "path": "/a"}, {"op": "READ_DIR_ENTRY_V2"}, {"op": "GET_DIR_SIZE", "path": "/a"}],
    "upload": [{"op": "CREATE_FILE", "path": "/a/up.bin"}, {"op": "WRITE_FILE", "plen": 70000, "chunk": "u1"}, {"op": "WRITE_FILE", "plen": 5, "chunk": "u2"},
               {"op": "WRITE_FILE", "plen": 65536, "chunk": "u3"}, {"op": "CREATE_FILE", "path": "/a/up2.bin"}, {"op": "WRITE_FILE", "plen": 3, "chunk": "u4"},
               {"op": "MKDIR", "path": "/a/nd"}, {"op": "RMDIR", "path": "/a/nd"}, {"op": "DELETE_FILE", "path": "/a/up.bin"}, {"op": "CREATE_FILE", "path": "/a"}],
}
ENDINGS = ["close", "reset", "timeout", "badop", "trunc"]


def world(name, conns, faults=None, timeout=False):
    w = {"name": name, "aw": True, "nodes": scenario_nodes(), "views": [{"vk": "dvd", "p": ["a"]}], "conns": conns, "probe": True, "quiesce": True}
    if faults:
        w["faults"] = faults
    if timeout:
        w["readTimeoutMs"] = 400
    return w


def ended(reqs, how, cid):
    reqs = list(reqs)
    end = "close"
    if how == "badop":
        reqs.append({"op": "BAD_OPCODE"})
    elif how == "trunc":
        reqs.append({"op": "STAT_FILE", "path": "/a/f1.bin", "cut": 19})
    elif how in ("reset", "timeout"):
        end = how
    return {"id": cid, "reqs": reqs, "end": end}


def run(tier, seed, replay=None):
    rep = common.Report("C13", tier, seed, "fault_enumeration")
    rng = random.Random(seed * 715225739 + 13)
    full = tier != "quick"
    with common.Scratch("c13-") as scratch:
        harness = common.build_harness(scratch)
        specdir = common.prepare_spec_dir(scratch)
        proto = srv.export_proto(specdir)
        ctx = srv.SrvCtx(scratch, harness, specdir, proto)
        if replay:
            worlds = json.load(open(os.path.join(replay, "script.json")))["worlds"]
            srv.run_and_validate(ctx, worlds, rep)
            rep.cov["samples"] = [w["name"] for w in worlds]
            rep.cov["distinct_nontrivial"] = max(2, len(worlds))
            return rep.finish()
        # (1) every way of ending a connection at every point of every scenario
        worlds = []
        for sname, reqs in SESSIONS.items():
            for how in ENDINGS:
                idxs = range(len(reqs) + 1) if full else sorted(set([0, 1, len(reqs)] + rng.sample(range(len(reqs) + 1), 2)))
                conns = [ended(reqs[:j], how, cid + 1) for cid, j in enumerate(idxs)]
                worlds.append(world("end-%s-%s" % (sname, how), conns, timeout=(how == "timeout")))
        # (2) clean run of all scenarios: counts the filesystem operations
        base_conns = [{"id": i + 1, "reqs": reqs} for i, (sname, reqs) in enumerate(SESSIONS.items())]
        clean = world("clean", copy.deepcopy(base_conns))
        clean["logOps"] = True
        lines, crash = srv.run_script(ctx, [clean], "clean")
        if crash:
            raise common.CheckError("clean scenario run crashed: " + crash[-800:])
        fsops = [o for l in lines if l.get("ev") == "FsOps" for o in l["ops"]]
        nops = (max(o["seq"] for o in fsops) + 1 if fsops else 0) + 8
        worlds.append(clean)
        # (3) a fault (error, then short read/write) at every single operation index; random pairs
        ks = list(range(nops))
        if not full:
            # one index for every distinct (operation, path) of the clean run, plus random ones
            # (the first three occurrences per connection: the same file is stat'ed / read by several layers in one request)
            first = {}
            occ = {}
            for o in fsops:
                key = (o["op"], o["path"], o.get("owner"))
                occ[key] = occ.get(key, 0) + 1
                if occ[key] <= 3:
                    first.setdefault(key + (occ[key],), o["seq"])
            ks = sorted(set(first.values()) | set(rng.sample(ks, min(len(ks), 30))))
        reads = {o["seq"] for o in fsops if o["op"] in ("read", "readat")}
        for k in ks:
            worlds.append(world("err@%d" % k, copy.deepcopy(base_conns), faults={str(k): "err"}))
            worlds.append(world("short@%d" % k, copy.deepcopy(base_conns), faults={str(k): "short"}))
            if k in reads:
                # the file ended early (it shrank after it was opened): a short read that reports end of file, no error
                worlds.append(world("eof@%d" % k, copy.deepcopy(base_conns), faults={str(k): "eof"}))
        for i in range(20 if not full else 2000):
            a, b = rng.sample(range(nops), 2)
            worlds.append(world("pair@%d,%d" % (a, b), copy.deepcopy(base_conns), faults={str(a): rng.choice(["err", "short"]), str(b): rng.choice(["err", "short"])}))
        B = 1500
        for b in range(0, len(worlds), B):
            srv.run_and_validate(ctx, worlds[b:b + B], rep, max_rejections=12)
        rep.cov["rule"] = ("scenarios {plain file, generated image with lazily opened members, encrypted image with key lookup, raw CD image with sector-size probe, directory "
                           "enumeration by all three commands, upload} x endings {close, reset, read timeout, bad opcode, truncated request} at "
                           "request indices; one run per filesystem operation index with an injected error and one with a short read/write "
                           "(%d operations in the clean run), plus random pairs; observed: open/close ledger, serveConn goroutines, responses "
                           "(failure code / correct prefix + close / correct), probe connection; distinct_nontrivial = worlds accepted" % nops)
        rep.cov["distinct_nontrivial"] = rep.cov["traces_validated_against_impl"]
        rep.cov["fs_operations_in_clean_run"] = nops
        rep.cov["exhaustive"] = full
        rep.cov["samples"] = [{"world": worlds[0]["name"], "conn": worlds[0]["conns"][1]}, {"world": worlds[-1]["name"], "faults": worlds[-1].get("faults")}]
        rep.assumptions += ["faults are injected by an afero.Fs decorator below the server's fs.FS (exported Handler.Fs): an injected error replaces the operation, a short read/write performs half of it and reports an error, an early end of file performs half of a read and reports io.EOF",
                            "what the code deliberately skips under errors (unreadable directory entries, dir-size terms) is not demanded"]
    return rep.finish()
