"""C11 image-kind detection and key discovery pick the documented source."""
import json
import os
import random

import common
import srv

S = 2048


def rand_key(rng):
    return "".join("%02x" % rng.randrange(256) for _ in range(16))


def build_case(rng, i, item):
    y, facts = item["layout"], item["facts"]
    kA, kB, kE = rand_key(rng), rand_key(rng), rand_key(rng)
    name = "game" + y["ext"]
    if y["nesting"] == "direct":
        path, red = [y["dir"], name], ["REDKEY", "game.dkey"]
    elif y["nesting"] == "nested":
        path, red = ["games", y["dir"], "sub", name], ["games", "REDKEY", "sub", "game.dkey"]
    else:
        path, red = ["OTHER", "sub", name], ["REDKEY", "sub", "game.dkey"]

    def keyfile(state, key):
        return {"none": "", "valid": key + rng.choice(["", "\n"]), "malformed": rng.choice(["zz" + key[2:], key[:10], "not a key"])}[state]
    ln = y["len"]
    enc_sector = rng.choice([2, 3])      # 2: the tail of the 3k3y area (0x1000..0x1070) lies in an encrypted sector
    if ln == "long":
        sectors, extra, regions = 6, 0, [[0, enc_sector - 1], [enc_sector + 1, 6]]
    else:
        size = {"short": 0xF00, "inside": 0x1000, "exact": 0x1070}[ln]
        sectors, extra, regions = size // S, size % S, [[0, 2], [4, 5]]
    if y["table"] == "invalid":
        regions = rng.choice([[[0, 1]], [[1, 2], [3, 4]], [[0, 3], [2, 4]], [[0, 2], [4, 3]]])
    kind = {"none": "redump", "enc": "3k3y-enc", "dec": "3k3y-dec"}[y["watermark"]]
    true_key = rng.choice([kA, kB, kE])
    spec = {"kind": kind, "key": true_key, "regions": regions, "sectors": sectors, "extraLen": extra, "embedded": kE,
            "encFrom": [[enc_sector, enc_sector + 1]] if ln == "long" else []}
    ops = [{"op": "read", "n": 512} for _ in range(4)] + [{"op": "readat", "off": 3 * S, "n": S}, {"op": "readat", "off": 3 * S + 5, "n": 100}, {"op": "readat", "off": 2 * S, "n": S}]
    for o in [0xF6F, 0xF70, 0xF80, 0x106F, 0x1070, 0x1071]:
        ops += [{"op": "readat", "off": o, "n": rng.choice([1, 16, 256, 300])}, {"op": "seek", "off": o, "whence": 0}, {"op": "read", "n": rng.choice([1, 17, 257, 4096])}]
    ops += [{"op": "seek", "off": 0, "whence": 0}, {"op": "read", "n": 70000}]
    return {"name": "lay%d" % i, "spec": spec, "keys": {"A": kA, "B": kB, "E": kE}, "cuts": [0xF70, 0x1070],
            "layout": {"path": path, "adjacentKey": keyfile(y["adjacent"], kA), "redkeyPath": red, "redkeyKey": keyfile(y["redkey"], kB), "mode": y["mode"]},
            "facts": facts, "ops": ops}


def odd_cases(rng):
    """Layouts outside the product that still have a definite answer: probes for a key file that fail for reasons other than
    "no such file" (name too long, REDKEY is a file) mean there is no key; names that merely fold to PS3ISO / .iso are not those."""
    base = {"dir": "PS3ISO", "ext": ".iso", "nesting": "direct", "adjacent": "none", "redkey": "none", "watermark": "none", "len": "long", "mode": "read", "table": "valid"}

    def facts(y, **over):
        f = {"mode": y["mode"], "isIso": True, "inPs3iso": True, "adjacent": y["adjacent"], "redkey": y["redkey"], "watermark": y["watermark"],
             "longEnough": True, "tableValid": True}
        f.update(over)
        return f
    out = []
    # 1. a 255-byte image name: "<base>.dkey" would be 256 bytes
    y = dict(base)
    c = build_case(rng, 90001, {"layout": y, "facts": facts(y)})
    c["name"] = "odd-longname"
    c["layout"]["path"] = ["PS3ISO", "g" * 251 + ".iso"]
    c["layout"]["redkeyPath"] = ["REDKEY", "g" * 251 + ".dkey"]
    out.append(c)
    # 2. REDKEY is a regular file (the probe below it fails with "not a directory")
    y = dict(base)
    c = build_case(rng, 90002, {"layout": y, "facts": facts(y)})
    c["name"] = "odd-redkey-is-file"
    c["layout"]["redkeyPath"] = ["REDKEY"]
    c["layout"]["redkeyKey"] = "this is a file, not a directory"
    out.append(c)
    # 3. names that only fold to the special ones under Unicode case mapping (U+0130): ordinary files, even with a key beside them
    for k, (dname, ext) in enumerate([("PS3\u0130SO", ".iso"), ("PS3ISO", ".\u0130SO"), ("PS3\u0131SO", ".iso")]):
        y = dict(base, adjacent="valid")
        c = build_case(rng, 90003 + k, {"layout": y, "facts": facts(y, isIso=(ext == ".iso"), inPs3iso=(dname == "PS3ISO"))})
        c["name"] = "odd-fold%d" % k
        c["layout"]["path"] = [dname, "game" + ext]
        out.append(c)
    return out


def covering(items, rng, n):
    """All pairs of field values + n random ones (a covering array in the weak sense, greedily)."""
    fields = list(items[0]["layout"].keys())
    need = set()
    for a in range(len(fields)):
        for b in range(a + 1, len(fields)):
            for it in items:
                need.add((fields[a], it["layout"][fields[a]], fields[b], it["layout"][fields[b]]))
    chosen = []
    pool = items[:]
    rng.shuffle(pool)
    for it in pool:
        pairs = {(fields[a], it["layout"][fields[a]], fields[b], it["layout"][fields[b]]) for a in range(len(fields)) for b in range(a + 1, len(fields))}
        if pairs & need:
            chosen.append(it)
            need -= pairs
        if not need:
            break
    chosen += rng.sample(items, n)
    # the precedence triples the statement names: adjacent x redkey x watermark in a readable PS3ISO .iso
    for it in items:
        y = it["layout"]
        if y["dir"] == "PS3ISO" and y["ext"] == ".iso" and y["nesting"] == "direct" and y["mode"] == "read" and y["len"] == "long" and y["table"] == "valid":
            chosen.append(it)
    return chosen


def run(tier, seed, replay=None):
    rep = common.Report("C11", tier, seed, "model_checking")
    rng = random.Random(seed * 533000401 + 11)
    full = tier != "quick"
    with common.Scratch("c11-") as scratch:
        harness = common.build_harness(scratch)
        specdir = common.prepare_spec_dir(scratch)
        ctx = srv.SrvCtx(scratch, harness, specdir, None, sub="enc", key="cases", start_ev="EncOpen")
        mod, cfg = "EncIsoTrace.tla", "TR_EncIso.cfg"
        if replay:
            cases = json.load(open(os.path.join(replay, "script.json")))["cases"]
            srv.run_and_validate(ctx, cases, rep, module=mod, cfg=cfg)
            rep.cov["samples"] = [c["name"] for c in cases]
            return rep.finish()
        res = common.run_tlc(specdir, "MC_ImageKind.tla", "MC_ImageKind.cfg", workers=8, timeout=600)
        common.tlc_must_pass(res, "MC_ImageKind")
        rep.add_tlc(res)
        gen = common.run_tlc(specdir, "MC_ImageKind.tla", "GEN_ImageKind.cfg", workers=1, timeout=600)
        common.tlc_must_pass(gen, "GEN_ImageKind")
        rep.add_tlc(gen)
        items = [json.loads(json.loads(x)) for x in gen.printed("LAYOUT")]
        chosen = items if full else covering(items, rng, 300)
        cases = [build_case(rng, i, it) for i, it in enumerate(chosen)] + odd_cases(rng)
        B = 3000
        for b in range(0, len(cases), B):
            srv.run_and_validate(ctx, cases[b:b + B], rep, module=mod, cfg=cfg, max_rejections=12)
        rep.cov["rule"] = ("full product (TLC-enumerated, %d layouts; quick: all pairs + precedence triples + 300 random) of directory-name case x "
                           "extension case x nesting below PS3ISO x adjacent key x REDKEY key x watermark x file length around the 3k3y area x "
                           "table validity x open mode; each opened through fs.FS, read whole and around 0xF70..0x1070; returned bytes "
                           "classified against raw / zero / decryption under the adjacent, REDKEY and embedded key; "
                           "distinct_nontrivial = layouts accepted" % len(items))
        rep.cov["distinct_nontrivial"] = rep.cov["traces_validated_against_impl"]
        rep.cov["exhaustive"] = full
        rep.cov["samples"] = [{"layout": chosen[0]["layout"], "decision": chosen[0]["decision"]}]
    return rep.finish()
