"""C06 directory listing, stat and dir-size report the true tree."""
import json
import os
import random

import common
import srv

LIST_OPS = ["READ_DIR_ENTRY", "READ_DIR_ENTRY_V2", "READ_DIR"]


def shape_world(rng, shape, t0):
    """Directory shapes: empty, one entry, a few entries of every kind, many entries, long / non-ASCII names."""
    nodes = [srv.dnode(["t"], t0), srv.dnode(["t", "target_dir"], t0 + 1), srv.fnode(["t", "target_dir", "in.bin"], 777, cid="in777", mtime=t0 + 2),
             srv.fnode(["t", "target_file"], 4321, cid="tf4321", mtime=t0 + 3), srv.dnode(["dir"], t0 + 4)]
    d = ["dir"]
    if shape == "empty":
        pass
    elif shape == "one":
        nodes.append(srv.fnode(d + ["only.bin"], 10, cid="only10", mtime=t0 + 5))
    elif shape == "kinds":
        nodes += [srv.fnode(d + ["f.bin"], 2049, cid="f2049", mtime=t0 + 6), srv.fnode(d + ["e"], 0, mtime=t0 + 7),
                  srv.dnode(d + ["sub"], t0 + 8), srv.fnode(d + ["sub", "deep.bin"], 100, cid="deep100", mtime=t0 + 9),
                  srv.lnode(d + ["lf"], ["t", "target_file"]), srv.lnode(d + ["ld"], ["t", "target_dir"]),
                  srv.lnode(d + ["dangling"], ["t", "nothing"])]
    elif shape == "names":
        long1 = "L" * 255
        long2 = "x" * 200 + ".iso"
        nodes += [srv.fnode(d + [long1], 5, cid="long1", mtime=t0 + 10), srv.fnode(d + [long2], 6, cid="long2", mtime=t0 + 11),
                  srv.fnode(d + ["sp ace & co.txt"], 7, cid="space", mtime=t0 + 12), srv.fnode(d + ["...dots"], 8, cid="dots", mtime=t0 + 13),
                  srv.fnode(d + ["\u00fcn\u00ef-\u30b2\u30fc\u30e0.bin"], 11, cid="uni", mtime=t0 + 16),
                  srv.dnode(d + ["***DVD***"], t0 + 14), srv.fnode(d + ["CLOSEFILE"], 9, cid="cf", mtime=t0 + 15)]
    elif isinstance(shape, int):
        for i in range(shape):
            if i % 10 == 3:
                nodes.append(srv.dnode(d + ["sub%04d" % i], t0 + 20 + i))
            else:
                nodes.append(srv.fnode(d + ["file%04d.bin" % i], (i * 37) % 5000, cid="m%d" % i, mtime=t0 + 20 + i))
    return nodes


def listing_session(rng, dirpath, n_entries, style):
    reqs = [{"op": "OPEN_DIR", "path": dirpath}]
    if style == "entries":
        reqs += [{"op": "READ_DIR_ENTRY"}] * (n_entries + 2)
    elif style == "v2":
        reqs += [{"op": "READ_DIR_ENTRY_V2"}] * (n_entries + 2)
    elif style == "bulk":
        reqs += [{"op": "READ_DIR"}, {"op": "READ_DIR"}, {"op": "READ_DIR_ENTRY"}]
    elif style == "reopen":
        # re-open the same directory in the middle of a listing: the cursor starts over
        k = rng.randrange(1, max(2, n_entries))
        reqs += [{"op": rng.choice(LIST_OPS[:2])} for _ in range(k)]
        reqs += [{"op": "OPEN_DIR", "path": dirpath}]
        reqs += [{"op": "READ_DIR_ENTRY_V2"}] * (n_entries + 1)
        reqs += [{"op": "OPEN_DIR", "path": dirpath}, {"op": "READ_DIR"}, {"op": "OPEN_DIR", "path": dirpath}, {"op": "READ_DIR"},
                 {"op": "OPEN_DIR", "path": "/t/target_file"}, {"op": "OPEN_DIR", "path": "/t/target_file"}, {"op": "OPEN_DIR", "path": dirpath},
                 {"op": "READ_DIR_ENTRY"}]
    elif style == "interleaved":
        # other commands between the entries (open / read / close a file, stat, dir-size): the listing goes on undisturbed
        fpath = "/t/target_file"
        opened = False
        for k in range(n_entries + 2):
            reqs.append({"op": rng.choice(LIST_OPS[:2])})
            r = rng.random()
            if r < 0.25:
                reqs.append({"op": "OPEN_FILE", "path": fpath})
                opened = True
            elif r < 0.4 and opened:
                reqs.append({"op": "READ_FILE", "limit": 16, "off": 0})
            elif r < 0.6:
                reqs.append({"op": "OPEN_FILE", "path": "/CLOSEFILE"})
                opened = False
            elif r < 0.75:
                reqs.append({"op": "STAT_FILE", "path": rng.choice([fpath, dirpath, "/nope"])})
            elif r < 0.85:
                reqs.append({"op": "GET_DIR_SIZE", "path": dirpath})
        reqs += [{"op": "OPEN_FILE", "path": fpath}, {"op": "OPEN_DIR", "path": dirpath}, {"op": "OPEN_FILE", "path": "/CLOSEFILE"}, {"op": "READ_DIR"}]
    else:   # mixed interleaving of the three commands
        k = 0
        while k < n_entries + 3:
            op = rng.choice(LIST_OPS if k > 0 else LIST_OPS[:2])
            reqs.append({"op": op})
            k += 1
            if op == "READ_DIR":
                reqs += [{"op": "READ_DIR_ENTRY_V2"}, {"op": "READ_DIR"}]
                break
    return reqs


def run(tier, seed, replay=None):
    rep = common.Report("C06", tier, seed, "model_checking")
    rng = random.Random(seed * 49979687 + 6)
    full = tier != "quick"
    with common.Scratch("c06-") as scratch:
        harness = common.build_harness(scratch)
        specdir = common.prepare_spec_dir(scratch)
        proto = srv.export_proto(specdir)
        ctx = srv.SrvCtx(scratch, harness, specdir, proto)
        if replay:
            worlds = json.load(open(os.path.join(replay, "script.json")))["worlds"]
            srv.run_and_validate(ctx, worlds, rep)
            rep.cov["samples"] = [w["name"] for w in worlds]
            return rep.finish()
        worlds = []
        t0 = 1300000000 + rng.randrange(10 ** 7)
        shapes = ["empty", "one", "kinds", "names", 41, 150 if not full else 500]
        for shape in shapes:
            nodes = shape_world(rng, shape, t0)
            n = len([x for x in nodes if len(x["p"]) == 2 and x["p"][0] == "dir"])
            conns = []
            for i, style in enumerate(["entries", "v2", "bulk", "mixed", "mixed", "reopen", "reopen", "interleaved"]):
                if isinstance(shape, int) and shape > 100 and (style in ("mixed", "interleaved") or (style == "reopen" and i == 6) or (style == "v2" and not full)):
                    continue
                conns.append({"id": 1 + i, "reqs": listing_session(rng, "/dir", n, style)})
            # open-dir on everything, stat and dir-size for every node of the tree
            probes = []
            for x in nodes:
                if isinstance(shape, int) and shape > 100 and len(x["p"]) == 2 and rng.random() < 0.9:
                    continue
                w = srv.wire(x["p"], rng)
                probes += [{"op": "STAT_FILE", "path": w}, {"op": "OPEN_DIR", "path": srv.wire(x["p"])},
                           {"op": "GET_DIR_SIZE", "path": srv.wire(x["p"], rng)}]
            probes += [{"op": "STAT_FILE", "path": "/"}, {"op": "GET_DIR_SIZE", "path": "/"}, {"op": "GET_DIR_SIZE", "path": "/t"},
                       {"op": "STAT_FILE", "path": "/dir/nope"}, {"op": "OPEN_DIR", "path": "/dir/nope"},
                       {"op": "OPEN_DIR", "path": "/dir"}, {"op": "READ_DIR_ENTRY"}, {"op": "OPEN_DIR", "path": "/t"}, {"op": "READ_DIR"}]
            conns.append({"id": 9, "reqs": probes})
            worlds.append({"name": "shape-%s" % shape, "aw": False, "nodes": nodes, "conns": conns})
        # links to ancestors (a directory reachable from inside itself): every request is answered, sizes stay finite
        t1 = t0 + 500
        nodes = [srv.dnode(["d"], t1), srv.fnode(["d", "f.bin"], 10, cid="lp_f", mtime=t1 + 1), srv.lnode(["d", "self"], ["d"]), srv.lnode(["d", "self2"], ["d"]),
                 srv.lnode(["d", "up"], []), srv.dnode(["d", "sub"], t1 + 2), srv.fnode(["d", "sub", "g.bin"], 7, cid="lp_g", mtime=t1 + 3),
                 srv.lnode(["d", "sub", "back"], ["d"]), srv.lnode(["d", "sub", "side"], ["e"]), srv.dnode(["e"], t1 + 4),
                 srv.fnode(["e", "h.bin"], 5, cid="lp_h", mtime=t1 + 5), srv.lnode(["e", "tod"], ["d", "sub"])]
        reqs = []
        for pth in ("/d", "/", "/d/sub", "/e", "/d/self", "/d/sub/back/sub", "/d/up/e"):
            reqs += [{"op": "GET_DIR_SIZE", "path": pth}, {"op": "STAT_FILE", "path": pth}, {"op": "OPEN_DIR", "path": pth}, {"op": "READ_DIR"}]
        worlds.append({"name": "ancestor-links", "aw": False, "nodes": nodes, "conns": [{"id": 1, "reqs": reqs}], "probe": True})
        # listing through a symlinked directory and of the root; nested trees
        for i in range(6 if not full else 40):
            nodes = srv.basic_world(rng)
            dirs = [x["p"] for x in nodes if x["kind"] == "dir"] + [[], ["a", "lnkdir"]]
            conns = []
            for j, dpth in enumerate(rng.sample(dirs, min(4, len(dirs)))):
                conns.append({"id": j + 1, "reqs": listing_session(rng, srv.wire(dpth, rng), 6, rng.choice(["entries", "v2", "bulk", "mixed", "reopen"]))})
            worlds.append({"name": "nested%d" % i, "aw": False, "nodes": nodes, "conns": conns, "schedule": rng.choice(["seq", "rr"])})
        srv.run_and_validate(ctx, worlds, rep)
        rep.cov["rule"] = ("directory shapes {empty, one entry, every kind incl. links to file/dir/nothing, 255-byte and odd names, "
                           "41 and hundreds of entries} x the three listing commands and their interleavings, also with file open / read / close, "
                           "stat and dir-size requests between the entries; stat, open-dir and "
                           "dir-size for every node; distinct_nontrivial = worlds accepted")
        rep.cov["distinct_nontrivial"] = rep.cov["traces_validated_against_impl"]
        rep.cov["samples"] = [{"world": w["name"], "first": w["conns"][0]["reqs"][:3]} for w in worlds[:3]]
        rep.assumptions += ["tree facts (names, kinds, sizes, mtime, ctime, link targets) are re-read by the harness with lstat/readlink",
                            "access times are not compared"]
    return rep.finish()
