"""C20 offline tools: make-iso and decrypt outputs are exact and never clobber files."""
import hashlib
import json
import os
import random
import subprocess

import common
import isotrees
import srv

S = 2048


def sha(path):
    if os.path.isdir(path):
        return "dir:" + ",".join(sorted(os.listdir(path)))
    h = hashlib.sha256()
    with open(path, "rb") as f:
        h.update(f.read())
    st = os.stat(path)
    return h.hexdigest() + ":%d:%d" % (st.st_size, st.st_mtime_ns)


def run_cli(binary, args, cwd, timeout=120):
    p = subprocess.run([binary] + args, cwd=cwd, stdout=subprocess.PIPE, stderr=subprocess.PIPE, timeout=timeout,
                       env={"PATH": os.environ.get("PATH", ""), "HOME": cwd, "XDG_CONFIG_HOME": os.path.join(cwd, ".xdg"), "TZ": "UTC"})
    err = p.stderr.decode("utf-8", "replace")
    if p.returncode == 0:
        ex = "ok"
    elif p.returncode < 0 or p.returncode == 2 or "panic:" in err or "fatal error:" in err or "goroutine " in err:
        ex = "crash"
    else:
        ex = "error"
    return ex, p.stdout, err


HOME_DIRS = []


def prepare_target(base, target):
    """Returns (argument, path of the object to inspect, hash before).  A target kind followed by "~" is the same object named
    relative to the home directory (HOME = base): the tool expands "~/" itself."""
    if target.endswith("~"):
        # the tool expands "~/" with the account's home directory (not $HOME): a private directory there, removed afterwards
        import pwd
        home = pwd.getpwuid(os.getuid()).pw_dir
        priv = os.path.join(home, ".verif-c20-%d-%s" % (os.getpid(), os.path.basename(base)))
        os.makedirs(priv, exist_ok=True)
        HOME_DIRS.append(priv)
        arg, obj, before = prepare_target(priv, target[:-1])
        return "~/" + os.path.relpath(arg, home), obj, before
    if target == "stdout":
        return "-", None, None
    if target == "absent":
        return os.path.join(base, "out.bin"), os.path.join(base, "out.bin"), None
    if target == "emptyfile":
        p = os.path.join(base, "empty.bin")
        open(p, "wb").close()
        os.utime(p, (1500000000, 1500000000))
        return p, p, sha(p)
    if target == "file":
        p = os.path.join(base, "existing.bin")
        with open(p, "wb") as f:
            f.write(b"PRECIOUS" * 1000)
        os.utime(p, (1500000000, 1500000000))
        return p, p, sha(p)
    p = os.path.join(base, "existing.dir")
    os.makedirs(p)
    open(os.path.join(p, "keep.txt"), "w").write("keep")
    return p, p, sha(p)


def run(tier, seed, replay=None):
    try:
        return run1(tier, seed, replay)
    finally:
        import shutil
        for d in HOME_DIRS:
            shutil.rmtree(d, ignore_errors=True)


def run1(tier, seed, replay=None):
    rep = common.Report("C20", tier, seed, "model_checking")
    rng = random.Random(seed * 1299709 + 20)
    full = tier != "quick"
    with common.Scratch("c20-") as scratch:
        harness = common.build_harness(scratch)
        binary = common.build_binary(scratch)
        specdir = common.prepare_spec_dir(scratch)
        proto = srv.export_proto(specdir)
        iso_json = os.path.join(specdir, "iso.json")
        events = []
        served = []      # (name, path of produced plaintext, tool)
        n = 0

        def hrun(args):
            p = common.run_harness(harness, args, timeout=600)
            if p.returncode != 0:
                raise common.CheckError("harness %s failed: %s" % (args[0], p.stderr[-600:]))
            return p.stdout

        # ---- make-iso
        trees = [("small%d" % i, isotrees.small_tree(rng, max_nodes=rng.choice([2, 6, 12])), False, True) for i in range(4 if not full else 40)]
        trees += [("emptyfiles", [srv.dnode(["d"], 1500000000), srv.fnode(["d", "e1"], 0, mtime=1500000001), srv.fnode(["d", "z.bin"], 2049, cid="z2049", mtime=1500000002),
                                  srv.fnode(["d", "e2"], 0, mtime=1500000003)], False, True),
                  ("wide", isotrees.wide_tree(rng, 60, 5), False, True),
                  ("ps3", isotrees.ps3_tree(rng), True, True),
                  ("ps3-nosfo", isotrees.small_tree(rng, max_nodes=4), True, False),
                  ("dangling", [srv.dnode(["d"], 1500000000), srv.lnode(["d", "dl"], ["d", "nothing"])], False, False),
                  ("longname", [srv.dnode(["d"], 1500000000), srv.fnode(["d", "n" * 240], 5, cid="ln", mtime=1500000001)], False, False),
                  ("longroot", [srv.dnode(["Some Game Folder (EU) v1.02"], 1500000000), srv.fnode(["Some Game Folder (EU) v1.02", "a.bin"], 2049, cid="lr", mtime=1500000001)], False, True)]
        for name, nodes, ps3, input_ok in trees:
            for target in (["absent", "stdout", "file", "emptyfile", "dir", "absent~", "file~", "emptyfile~"] if (full or name in ("small0", "ps3"))
                           else [rng.choice(["absent", "stdout", "absent~"]), rng.choice(["file", "emptyfile", "dir", "file~"])]):
                n += 1
                base = os.path.join(scratch, "mk%d" % n)
                os.makedirs(base)
                nf = os.path.join(base, "nodes.json")
                json.dump(nodes, open(nf, "w"))
                hrun(["mkworld", "-nodes", nf, "-base", base])
                d = os.path.join(base, "g", nodes[0]["p"][0])
                arg, obj, before = prepare_target(base, target)
                target = target.rstrip("~")
                ex, out, err = run_cli(binary, ["make-iso", d, arg] + (["--ps3-mode"] if ps3 else []), base)
                obs = {"exit": ex, "imageAtTarget": False, "stdoutIsImage": False, "stdoutEmpty": len(out) == 0, "preexistingSame": True}
                if before is not None:
                    obs["preexistingSame"] = sha(obj) == before
                if input_ok:
                    ref = os.path.join(base, "ref.iso")
                    hrun(["dumpiso", "-dir", d, "-ps3", "true" if ps3 else "false", "-out", ref])
                    got = None
                    if target == "absent" and os.path.exists(obj):
                        got = obj
                    elif target == "stdout":
                        got = os.path.join(base, "stdout.bin")
                        open(got, "wb").write(out)
                    if got:
                        r = json.loads(hrun(["cmpmask", "-iso", iso_json, "-a", ref, "-b", got, "-ps3", "true" if ps3 else "false"]))
                        obs["imageAtTarget" if target == "absent" else "stdoutIsImage"] = r["equal"]
                        obs["lens"] = [r["lenA"], r["lenB"]]
                events.append({"ev": "MakeIso", "name": name, "tool": "make-iso", "inputOk": input_ok, "target": target, "obs": obs, "stderr": err[-200:]})

        # ---- several runs racing for one target
        import concurrent.futures
        for rnd in range(3 if not full else 12):
            n += 1
            base = os.path.join(scratch, "race%d" % n)
            os.makedirs(base)
            nodes = isotrees.wide_tree(rng, 40, 3)
            nf = os.path.join(base, "nodes.json")
            json.dump(nodes, open(nf, "w"))
            hrun(["mkworld", "-nodes", nf, "-base", base])
            d = os.path.join(base, "g", "d")
            out = os.path.join(base, "raced.iso")
            with concurrent.futures.ThreadPoolExecutor(max_workers=8) as ex:
                res = list(ex.map(lambda _: run_cli(binary, ["make-iso", d, out], base)[0], range(8)))
            ref = os.path.join(base, "ref.iso")
            hrun(["dumpiso", "-dir", d, "-ps3", "false", "-out", ref])
            same = False
            if os.path.exists(out):
                same = json.loads(hrun(["cmpmask", "-iso", iso_json, "-a", ref, "-b", out, "-ps3", "false"]))["equal"]
            events.append({"ev": "Race", "name": "race%d" % rnd, "tool": "make-iso", "runs": len(res), "succeeded": res.count("ok"), "crashed": res.count("crash"),
                           "targetIsImage": same, "inputOk": True, "target": "absent", "obs": {"exit": "race"}})

        # ---- decrypt
        def key(rng):
            return "".join("%02x" % rng.randrange(256) for _ in range(16))
        dec_cases = []
        for tool in ("redump", "3k3y"):
            kind = "redump" if tool == "redump" else "3k3y-enc"
            shapes = [("ok", [[0, 3], [5, 7], [9, 12]], 12, True), ("ok2", [[0, 1], [4, 12]], 12, True),
                      ("ok-many", [[0, 3]] + [[3 * k + 2, 3 * k + 3] for k in range(1, 40)], 124, True),
                      ("badtable", [[0, 3], [2, 7]], 8, False), ("onecount", [[0, 8]], 8, False)]
            for sname, regions, sectors, ok in shapes:
                dec_cases.append((tool, kind, sname, regions, sectors, ok, "goodkey"))
            if tool == "redump":
                dec_cases.append((tool, kind, "badkey", [[0, 3], [5, 8]], 8, False, "badkey"))
            else:
                dec_cases.append((tool, "3k3y-dec", "already-decrypted", [[0, 3], [5, 8]], 8, False, "goodkey"))
                dec_cases.append((tool, "redump", "no-watermark", [[0, 3], [5, 8]], 8, False, "goodkey"))
        for tool, kind, sname, regions, sectors, ok, keykind in dec_cases:
            for target in (["absent", "stdout", "file", "emptyfile", "dir", "absent~", "file~"] if (full or sname == "ok") else ["absent", rng.choice(["file", "emptyfile", "stdout", "file~"])]):
                n += 1
                base = os.path.join(scratch, "dec%d" % n)
                os.makedirs(base)
                k = key(rng)
                spec = {"kind": kind, "key": k, "regions": regions, "sectors": sectors, "extraLen": 0}
                img = os.path.join(base, "image.iso")
                kf = os.path.join(base, "image.dkey")
                hrun(["encbuild", "-spec", json.dumps(spec), "-out", img, "-keyfile", kf])
                if keykind == "badkey":
                    open(kf, "w").write("this is not hex\n")
                arg, obj, before = prepare_target(base, target)
                target = target.rstrip("~")
                args = ["decrypt", "redump", img, kf, arg] if tool == "redump" else ["decrypt", "3k3y", img, arg]
                ex, out, err = run_cli(binary, args, base)
                obs = {"exit": ex, "imageAtTarget": False, "stdoutIsImage": False, "stdoutEmpty": len(out) == 0, "preexistingSame": True}
                if before is not None:
                    obs["preexistingSame"] = sha(obj) == before
                ev = {"ev": "Decrypt", "name": "%s-%s" % (tool, sname), "tool": tool, "inputOk": ok, "target": target, "obs": obs, "regions": regions,
                      "segs": [], "gotLen": srv.pos(-1), "rawLen": srv.pos(sectors * S), "stderr": err[-200:]}
                got = None
                if ok and target == "absent" and os.path.exists(obj):
                    got = obj
                    obs["imageAtTarget"] = True
                elif ok and target == "stdout":
                    got = os.path.join(base, "stdout.bin")
                    open(got, "wb").write(out)
                    obs["stdoutIsImage"] = True
                if got:
                    cj = os.path.join(base, "classes.json")
                    hrun(["classify", "-raw", img, "-got", got, "-keys", json.dumps({"k": k}), "-cuts", json.dumps([8 + 8 * len(regions), 0xF70, 0x1070]), "-out", cj])
                    c = json.load(open(cj))
                    ev["segs"], ev["gotLen"], ev["rawLen"] = c["segs"], c["gotLen"], c["rawLen"]
                    if target == "absent" and sectors <= 16:
                        served.append(("%s-%s" % (tool, sname), got, tool))
                events.append(ev)

        # ---- judge the tool runs
        todo = events
        while todo:
            tp = os.path.join(specdir, "trace.ndjson")
            common.write_ndjson(tp, todo)
            v = common.validate_trace(specdir, "ToolsTrace.tla", "TR_Tools.cfg", tp, len(todo), timeout=900)
            rep.add_tlc(v.res)
            if v.accepted:
                rep.cov["traces_validated_against_impl"] += len(todo)
                break
            bad = todo[v.hwm]
            rep.cov["traces_validated_against_impl"] += v.hwm
            what = "content" if bad["obs"]["exit"] == "ok" and bad["inputOk"] and bad["target"] in ("absent", "stdout") else bad["obs"]["exit"]
            rep.violation("Tool:%s:%s:%s:%s" % (bad["tool"], bad["name"].split("-", 1)[-1] if bad["ev"] == "Decrypt" else ("valid" if bad["inputOk"] else "invalid"), bad["target"], what),
                          "TLC rejects the run of %s (%s) with target %s: %s" % (bad["tool"], bad["name"], bad["target"], json.dumps({k: bad[k] for k in bad if k != "segs"})[:900])
                          + "\nsegments not as specified: " + json.dumps([s for s in bad.get("segs", []) if s["classes"] != ["raw"]][:6]),
                          {"event.json": bad})
            todo = todo[v.hwm + 1:]
            if len(rep.violations) >= 12:
                break

        # ---- decrypt output placed under a served root is served back byte-identically
        worlds = []
        for name, path, tool in served:
            data = open(path, "rb").read()
            nodes = [srv.dnode(["PS3ISO"], 1500000000), srv.dnode(["other"], 1500000001)]
            for p in (["PS3ISO", "OUT.ISO"], ["other", "out.iso"], ["PS3ISO", "sub.bin"]):
                f = srv.fnode(p, len(data), cid="out_" + name, mtime=1500000002)
                f["raw"] = data.hex()
                nodes.append(f)
            reqs = []
            for p in ("/PS3ISO/OUT.ISO", "/other/out.iso", "/PS3ISO/sub.bin"):
                reqs += [{"op": "OPEN_FILE", "path": p}, {"op": "READ_FILE", "limit": len(data) + 10, "off": 0},
                         {"op": "READ_FILE", "limit": 600, "off": 0xF00}, {"op": "READ_FILE_CRITICAL", "limit": 4096, "off": 2048}]
            worlds.append({"name": "servedback-" + name, "aw": False, "nodes": nodes, "conns": [{"id": 1, "reqs": reqs}]})
        if worlds:
            ctx = srv.SrvCtx(scratch, harness, specdir, proto)
            srv.run_and_validate(ctx, worlds, rep)
        rep.cov["evaluations"] += len(events)
        rep.cov["distinct_nontrivial"] = max(2, rep.cov["traces_validated_against_impl"])
        rep.cov["rule"] = ("real CLI: make-iso for on-disk trees (random small, empty files, 60 entries, PS3 mode; invalid: PS3 mode without PARAM.SFO, dangling link, "
                           "over-long name) compared outside VarFields with the library image; decrypt redump / 3k3y for synthetic images (valid tables, bad table, bad key, "
                           "wrong watermark) classified segment-wise by TLC; targets {new path, '-', existing file, existing directory}; outputs placed under a served root "
                           "(PS3ISO and elsewhere) and read back through the real server")
        rep.cov["samples"] = [{k: events[0][k] for k in ("ev", "name", "target", "obs")}]
    return rep.finish()
