"""C05 write gating: read-only by default; uploads exact when enabled."""
import json
import os
import random

import common
import srv

PAYLOADS = [0, 1, 65535, 65536, 65537, 200000]


def upload(rng, path, sizes, tag):
    reqs = [{"op": "CREATE_FILE", "path": path}]
    for i, s in enumerate(sizes):
        reqs.append({"op": "WRITE_FILE", "plen": s, "chunk": "%s_%d" % (tag, i)})
    return reqs


def mutating_session(rng, nodes, n, tag):
    dirs = [x["p"] for x in nodes if x["kind"] == "dir"]
    files = [x["p"] for x in nodes if x["kind"] == "file"]
    reqs = []
    k = 0
    for _ in range(n):
        r = rng.random()
        if r < 0.25:
            tgt = rng.choice([rng.choice(dirs) + ["up%d.bin" % rng.randrange(3)], rng.choice(files), rng.choice(dirs), ["nodir", "x"],
                              ["***DVD***", "a"], ["***PS3***", "a", "new"], ["dangling"]])
            reqs.append({"op": "CREATE_FILE", "path": srv.wire(tgt, rng)})
        elif r < 0.55:
            k += 1
            reqs.append({"op": "WRITE_FILE", "plen": rng.choice([0, 1, 3, 4096, 65536, 65537]), "chunk": "%s_%d" % (tag, k)})
        elif r < 0.65:
            reqs.append({"op": "DELETE_FILE", "path": srv.wire(rng.choice(files + [["a", "nope"], ["empty"], ["a", "up0.bin"], ["lnkfile"]]), rng)})
        elif r < 0.75:
            reqs.append({"op": "MKDIR", "path": srv.wire(rng.choice(dirs) + [rng.choice(["nd", "nd2", "sub"])], rng)})
        elif r < 0.85:
            reqs.append({"op": "RMDIR", "path": srv.wire(rng.choice(dirs + [["a", "nd"], ["b", "nd2"], ["nope"]]), rng)})
        elif r < 0.9:
            reqs.append({"op": "STAT_FILE", "path": srv.wire(rng.choice(files + dirs), rng)})
        else:
            f = rng.choice(files + [["a", "up0.bin"]])
            reqs += [{"op": "OPEN_FILE", "path": srv.wire(f)}, {"op": "READ_FILE", "limit": 70000, "off": 0}]
    return reqs


def run(tier, seed, replay=None):
    rep = common.Report("C05", tier, seed, "model_checking")
    rng = random.Random(seed * 67867967 + 5)
    full = tier != "quick"
    with common.Scratch("c05-") as scratch:
        harness = common.build_harness(scratch)
        specdir = common.prepare_spec_dir(scratch)
        proto = srv.export_proto(specdir)
        ctx = srv.SrvCtx(scratch, harness, specdir, proto)
        if replay:
            worlds = json.load(open(os.path.join(replay, "script.json")))["worlds"]
            srv.run_and_validate(ctx, worlds, rep)
            rep.cov["samples"] = [w["name"] for w in worlds]
            return rep.finish()
        # design level: WriteGate / NoWriteThroughViews on the model
        for cfg in (["MC_ReadOnly.cfg"] if not full else ["MC_ReadOnly.cfg", "MC_Write2.cfg", "MC_Protocol.cfg"]):
            res = common.run_tlc(specdir, "MC_Ps3NetSrv.tla", cfg, workers=12, timeout=1500, heap="12g")
            common.tlc_must_pass(res, cfg)
            rep.add_tlc(res)
        worlds = []
        for aw in (False, True):
            # exact uploads: every payload size, 1..4 chunks, new and existing (truncated) targets, then read back
            for i, combo in enumerate([[s] for s in PAYLOADS] + [[65536, 65536, 1], [200000, 0, 3, 65537], [1, 1, 1, 1]]):
                nodes = srv.basic_world(rng)
                existing = [x["p"] for x in nodes if x["kind"] == "file" and srv.unpos(x["size"]) > 0][0]
                for tgt in (["a", "upload.bin"], existing):
                    w = srv.wire(tgt)
                    reqs = upload(rng, w, combo, "u%d%d" % (i, int(aw)))
                    reqs += [{"op": "STAT_FILE", "path": w}, {"op": "OPEN_FILE", "path": w},
                             {"op": "READ_FILE", "limit": 300000, "off": 0}, {"op": "READ_FILE", "limit": 10, "off": sum(combo)},
                             {"op": "CREATE_FILE", "path": "/a"},       # a directory path: closes the upload
                             {"op": "WRITE_FILE", "plen": 5, "chunk": "after%d" % i}]
                    worlds.append({"name": "upload-%s-%d-%s" % ("rw" if aw else "ro", i, "new" if tgt[0] == "a" else "existing"),
                                   "aw": aw, "nodes": nodes, "views": [{"vk": "dvd", "p": ["a"]}], "conns": [{"id": 1, "reqs": reqs}]})
            # mixed mutating sessions, two connections taking turns
            for i in range(6 if not full else 60):
                nodes = srv.basic_world(rng)
                conns = [{"id": 1, "reqs": mutating_session(rng, nodes, 25, "m%da" % i)},
                         {"id": 2, "reqs": mutating_session(rng, nodes, 25, "m%db" % i)}]
                worlds.append({"name": "mixed-%s-%d" % ("rw" if aw else "ro", i), "aw": aw, "nodes": nodes,
                               "views": [{"vk": "dvd", "p": ["a"]}], "conns": conns, "schedule": "rr"})
            # removal by the wrong command, of links, and of the served root itself (also when it is empty)
            t = 1500000000
            nodes = [srv.dnode(["e"], t), srv.dnode(["e", "emptydir"], t + 1), srv.fnode(["e", "file.bin"], 10, cid="rm_f", mtime=t + 2),
                     srv.dnode(["e", "full"], t + 3), srv.fnode(["e", "full", "x"], 1, cid="rm_x", mtime=t + 4), srv.lnode(["e", "ldir"], ["e", "full"]),
                     srv.lnode(["e", "lfile"], ["e", "file.bin"]), srv.lnode(["e", "ldang"], ["e", "nothing"]), srv.dnode(["e", "emptydir2"], t + 5)]
            reqs = []
            for op, pth in [("DELETE_FILE", "/e/emptydir"), ("RMDIR", "/e/file.bin"), ("RMDIR", "/e/ldir"), ("RMDIR", "/e/lfile"), ("RMDIR", "/e/ldang"),
                            ("DELETE_FILE", "/e/full"), ("RMDIR", "/e/full"), ("DELETE_FILE", "/e/ldir"), ("DELETE_FILE", "/e/ldang"), ("DELETE_FILE", "/e/lfile"),
                            ("RMDIR", "/e/emptydir2"), ("DELETE_FILE", "/e/file.bin"), ("RMDIR", "/"), ("DELETE_FILE", "/"), ("RMDIR", ""), ("DELETE_FILE", "/."),
                            ("RMDIR", "../.."), ("STAT_FILE", "/e/full/x")]:
                reqs.append({"op": op, "path": pth})
            worlds.append({"name": "removal-kinds-%s" % ("rw" if aw else "ro"), "aw": aw, "nodes": nodes, "conns": [{"id": 1, "reqs": reqs}], "probe": True})
            reqs = [{"op": op, "path": pth} for op, pth in [("RMDIR", "/"), ("DELETE_FILE", "/"), ("RMDIR", ""), ("DELETE_FILE", ""), ("RMDIR", "/."), ("RMDIR", "../.."),
                                                             ("CREATE_FILE", "/"), ("MKDIR", "/"), ("STAT_FILE", "/"), ("MKDIR", "/newdir"), ("STAT_FILE", "/newdir")]]
            worlds.append({"name": "empty-root-%s" % ("rw" if aw else "ro"), "aw": aw, "nodes": [], "conns": [{"id": 1, "reqs": reqs}], "probe": True})
        srv.run_and_validate(ctx, worlds, rep)
        rep.cov["rule"] = ("writing disabled/enabled x {uploads of every payload size in 1..4 chunks to new and existing targets, read back; "
                           "mixed create/write/delete/mkdir/rmdir sessions on two connections incl. directory, virtual-image, missing-parent "
                           "and symlink targets; removal by the wrong command, of links, of the (empty) served root itself}; after every request the harness re-reads the whole tree; distinct_nontrivial = worlds accepted")
        rep.cov["distinct_nontrivial"] = rep.cov["traces_validated_against_impl"]
        rep.cov["samples"] = [worlds[0]["conns"][0]["reqs"][:5]]
    return rep.finish()
