"""C12 connections are isolated from each other under concurrency."""
import json
import os
import random

import common
import isotrees
import srv


def shared_nodes(rng):
    t = 1470000000
    nodes = [srv.dnode(["pub"], t), srv.fnode(["pub", "big.bin"], 300000, cid="pub_big", mtime=t + 1), srv.fnode(["pub", "mid.bin"], 70000, cid="pub_mid", mtime=t + 2),
             srv.fnode(["pub", "small.bin"], 100, cid="pub_small", mtime=t + 3), srv.dnode(["pub", "img"], t + 4),
             srv.fnode(["pub", "img", "a.bin"], 5000, cid="img_a", mtime=t + 5), srv.fnode(["pub", "img", "b.bin"], 66000, cid="img_b", mtime=t + 6),
             srv.dnode(["pub", "img", "d"], t + 7), srv.fnode(["pub", "img", "d", "c.bin"], 2049, cid="img_c", mtime=t + 8)]
    # raw CD images of different sector sizes (2 MiB .. 848 MiB: the sector size is probed on every open)
    for i, (ss, tag) in enumerate([(2048, "CD001"), (2352, "PSX"), (2448, "CD001"), (2336, "PSX")]):
        off = 24 + 16 * ss + (8 if tag == "PSX" else 0)
        nodes.append(srv.fnode(["pub", "cd%d.bin" % ss], 2 * 1024 * 1024 + 4096 * i, cid="cd%d" % ss, mtime=t + 20 + i, marks=[{"off": srv.pos(off), "tag": tag}]))
    nodes.append(srv.fnode(["pub", "nocd.bin"], 2 * 1024 * 1024 + 77, cid="nocd", mtime=t + 30))
    # a game directory for ***PS3*** images: every open parses PARAM.SFO (several keys around TITLE_ID)
    nodes += [srv.dnode(["pub", "game"], t + 40), srv.dnode(["pub", "game", "PS3_GAME"], t + 41),
              isotrees.param_sfo(["pub", "game", "PS3_GAME", "PARAM.SFO"], "BLUS12345", t + 42, 4, 5),
              srv.fnode(["pub", "game", "PS3_GAME", "ICON0.PNG"], 3000, cid="game_icon", mtime=t + 43)]
    return nodes


CDS = ["cd2048", "cd2352", "cd2448", "cd2336", "nocd"]


def session(rng, cid, n, aw):
    reqs = []
    sizes = {"big": 300000, "mid": 70000, "small": 100}
    cur = None
    k = 0
    # some connections begin with a transfer that fails inside the copy loop (critical read of a directory handle)
    # and die; everybody else starts after them
    # (connection churn: they are sprinkled over the run of the others)
    # (three barriers: start, start of the hammer phase, end.  Half of the failing transfers happen in the middle of the hammer
    # phase, when every other connection has a pooled buffer in flight.)
    if cid % 4 == 0:
        if cid % 8 == 0:
            return [{"op": "BARRIER"}, {"op": "BARRIER"}, {"op": "OPEN_FILE", "path": "/pub", "delayMs": rng.randrange(0, 40)},
                    {"op": "READ_FILE_CRITICAL", "limit": 65536, "off": 0}, {"op": "BARRIER"}]
        return [{"op": "BARRIER"}, {"op": "OPEN_FILE", "path": "/pub", "delayMs": rng.randrange(0, 2500)},
                {"op": "READ_FILE_CRITICAL", "limit": 65536, "off": 0}, {"op": "BARRIER"}, {"op": "BARRIER"}]
    # others walk away in the middle of the reply to an ordinary read (the unsent rest must not reach anybody else)
    if cid % 4 == 2 and rng.random() < 0.7:
        return [{"op": "BARRIER"}, {"op": "OPEN_FILE", "path": "/pub/big.bin", "delayMs": rng.randrange(0, 2500)},
                {"op": "READ_FILE", "limit": 4096, "off": 1000},
                {"op": "READ_FILE", "limit": rng.choice([4096, 70000, 140000]), "off": rng.randrange(0, 100000), "abortAfter": rng.choice([1, 4, 5, 100, 3000])},
                {"op": "BARRIER"}, {"op": "BARRIER"}]
    reqs.append({"op": "BARRIER"})
    for _ in range(n):
        r = rng.random()
        if r < 0.25:
            # CD images: open (sector size probe) and sector reads, back to back
            f = rng.choice(CDS)
            reqs.append({"op": "OPEN_FILE", "path": "/pub/%s.bin" % f})
            for _ in range(rng.randrange(1, 4)):
                reqs.append({"op": "READ_CD_2048", "start": rng.randrange(0, 800), "count": rng.choice([1, 2, 8, 32])})
            cur = None
            continue
        if r < 0.40 or cur is None:
            f = rng.choice(["big", "mid", "small", "viso", "ps3"])
            if f == "viso":
                reqs.append({"op": "OPEN_FILE", "path": "/***DVD***/pub/img"})
                cur = 131072 + 65536
            elif f == "ps3":
                reqs.append({"op": "OPEN_FILE", "path": "/***PS3***/pub/game"})
                cur = 65536 + 4096
            else:
                reqs.append({"op": "OPEN_FILE", "path": "/pub/%s.bin" % f})
                cur = sizes[f]
        elif r < 0.6:
            off = rng.randrange(0, max(1, cur))
            reqs.append({"op": "READ_FILE", "limit": rng.choice([512, 4096, 65536, 65537, 140000]), "off": off})
        elif r < 0.74:
            want = rng.choice([4096, 65536, 70000, 131072])
            off = rng.randrange(0, max(1, cur - want)) if cur > want else 0
            reqs.append({"op": "READ_FILE_CRITICAL", "limit": min(want, max(0, cur - off)), "off": off})
        elif r < 0.80:
            reqs += [{"op": "OPEN_DIR", "path": rng.choice(["/pub", "/pub/img", "/priv%d" % cid])}, {"op": "READ_DIR_ENTRY"}, {"op": "READ_DIR"}]
        elif r < 0.86:
            reqs.append({"op": "STAT_FILE", "path": rng.choice(["/pub/big.bin", "/pub/img/d/c.bin", "/priv%d/up0.bin" % cid, "/nope"])})
        elif aw:
            k += 1
            reqs += [{"op": "CREATE_FILE", "path": "/priv%d/up%d.bin" % (cid, rng.randrange(2))},
                     {"op": "WRITE_FILE", "plen": rng.choice([1, 4096, 65536, 70000]), "chunk": "c%d_%d_a" % (cid, k)},
                     {"op": "WRITE_FILE", "plen": rng.choice([0, 3, 65537]), "chunk": "c%d_%d_b" % (cid, k)}]
            if rng.random() < 0.3:
                reqs += [{"op": "MKDIR", "path": "/priv%d/d%d" % (cid, k)}, {"op": "RMDIR", "path": "/priv%d/d%d" % (cid, k)}]
    # hammer: back-to-back critical transfers of this connection's "own" shared file, all connections at once
    f = ["big", "mid"][cid % 2]
    reqs.append({"op": "BARRIER"})
    # everybody builds the same two generated images at the same moment (directory scan, PARAM.SFO, encoders)
    reqs += [{"op": "OPEN_FILE", "path": "/***PS3***/pub/game"}, {"op": "READ_FILE", "limit": 2048, "off": 2048},
             {"op": "OPEN_FILE", "path": "/***DVD***/pub/img"}, {"op": "READ_FILE", "limit": 65536, "off": 40960},      # (reaches the member files)
             {"op": "READ_FILE_CRITICAL", "limit": 4096, "off": 61440}]
    reqs.append({"op": "OPEN_FILE", "path": "/pub/%s.bin" % f})
    for _ in range(30):
        want = rng.choice([65536, 70000, 131072]) if f == "big" else rng.choice([4096, 65536])
        reqs.append({"op": "READ_FILE_CRITICAL", "limit": want, "off": rng.randrange(0, sizes[f] - want)})
    # everybody waits for everybody, then looks at its own subtree once more
    reqs += [{"op": "BARRIER"}, {"op": "STAT_FILE", "path": "/priv%d" % cid}, {"op": "GET_DIR_SIZE", "path": "/priv%d" % cid}]
    return reqs


def shorten(reqs, body, hammer):
    """Fewer requests between the barriers (the barriers themselves stay: every connection passes all three)."""
    cut = [i for i, r in enumerate(reqs) if r["op"] == "BARRIER"]
    if len(cut) != 3:
        return reqs
    a, b, c = cut
    return reqs[:a + 1] + reqs[a + 1:b][:body] + reqs[b:b + 1] + reqs[b + 1:c][:hammer + 1] + reqs[c:]


def run(tier, seed, replay=None):
    rep = common.Report("C12", tier, seed, "model_checking")
    rng = random.Random(seed * 817504253 + 12)
    full = tier != "quick"
    with common.Scratch("c12-") as scratch:
        harness = common.build_harness(scratch)
        race_harness = common.build_harness(scratch, race=True)
        specdir = common.prepare_spec_dir(scratch)
        proto = srv.export_proto(specdir)
        ctx = srv.SrvCtx(scratch, harness, specdir, proto)
        if replay:
            worlds = json.load(open(os.path.join(replay, "script.json")))["worlds"]
            srv.run_and_validate(ctx, worlds, rep)
            rep.cov["samples"] = [w["name"] for w in worlds]
            return rep.finish()
        # design level: Isolation on the model (2 connections, read-only) + interleaved mutation
        for cfg in ["MC_ReadOnly.cfg", "MC_Write2.cfg"]:
            res = common.run_tlc(specdir, "MC_Ps3NetSrv.tla", cfg, workers=12, timeout=1500, heap="12g")
            common.tlc_must_pass(res, cfg)
            rep.add_tlc(res)
        worlds = []
        for nconn in ([3, 8, 32] if not full else [2, 3, 8, 16, 32, 64]):
            for rep_i in range((1 if nconn < 32 else 2) if not full else 6):
                aw = rep_i % 2 == 0
                nodes = shared_nodes(rng) + [srv.dnode(["priv%d" % (c + 1)], 1470001000 + c) for c in range(nconn)]
                conns = [{"id": c + 1, "reqs": session(rng, c + 1, 25 if not full else 40, aw)} for c in range(nconn)]
                worlds.append({"name": "conc-%d-%d" % (nconn, rep_i), "aw": aw, "nodes": nodes, "views": [{"vk": "dvd", "p": ["pub", "img"]}, {"vk": "ps3", "p": ["pub", "game"]}],
                               "conns": conns, "schedule": "conc", "quiesce": True, "bufferSize": rng.choice([0, 0, 4096, 100000]),
                               "writeDelayUs": 0 if nconn < 8 else rng.choice([150, 400])})      # (a peer that drains slowly keeps transfers overlapping)
        # GOMAXPROCS 1, 4, 16: the interleavings differ
        for procs in (["4"] if not full else ["1", "4", "16"]):
            os.environ["GOMAXPROCS"] = procs
            srv.run_and_validate(ctx, worlds, rep)
        if not full:
            # one scheduler thread: everything goes through one per-thread cache of the buffer pool (what one connection puts
            # back, the next one takes)
            os.environ["GOMAXPROCS"] = "1"
            one = [json.loads(json.dumps(w)) for w in worlds[:2]]
            for w in one:
                w["name"] += "-p1"
                w["writeDelayUs"] = 300
            srv.run_and_validate(ctx, one, rep)
        # the same drivers on a -race build: a race report is an event outside the specification's alphabet
        os.environ["GOMAXPROCS"] = "8"
        rctx = srv.SrvCtx(scratch, race_harness, specdir, proto)
        if full:
            # the race build is an order of magnitude slower: every connection count once, the largest ones shortened
            rworlds = []
            seen_n = set()
            for w in worlds:
                if len(w["conns"]) in seen_n:
                    continue
                seen_n.add(len(w["conns"]))
                w2 = json.loads(json.dumps(w))
                w2["name"] += "-race"
                if len(w2["conns"]) >= 32:
                    for cj in w2["conns"]:
                        cj["reqs"] = shorten(cj["reqs"], 20, 10)
                rworlds.append(w2)
        else:
            # one 8-connection and one (shorter) 32-connection world: the race build is an order of magnitude slower
            short = json.loads(json.dumps(worlds[-1]))
            short["name"] += "-race"
            for cj in short["conns"]:
                cj["reqs"] = shorten(cj["reqs"], 14, 10)
            rworlds = [worlds[1], short]
        srv.run_and_validate(rctx, rworlds, rep)
        os.environ.pop("GOMAXPROCS", None)
        rep.cov["rule"] = ("2..64 concurrent connections (goroutine each), seeded sessions over shared read-only files, the same generated images (plain and PS3 "
                           "mode), connections that die inside a transfer or reset in the middle of a reply, and "
                           "private writable subtrees, large transfers spanning many pooled buffers, buffer sizes {64 KiB, 4 KiB, 100000}; every "
                           "connection's event stream validated separately against the single-connection specification; the same on a -race build; "
                           "distinct_nontrivial = worlds whose every connection trace TLC accepted")
        rep.cov["distinct_nontrivial"] = rep.cov["traces_validated_against_impl"]
        rep.cov["race_build_worlds"] = len(rworlds)
        rep.cov["samples"] = [{"world": worlds[0]["name"], "conn1": worlds[0]["conns"][0]["reqs"][:5]}]
        rep.assumptions += ["'free of data races' is observed with the Go race detector on the same drivers (an auxiliary channel of the conformance run, not decided by TLC)",
                            "connections only mutate their own private subtree; the shared part of the tree is static"]
    return rep.finish()
