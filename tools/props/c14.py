"""C14 IP range specifications denote exactly the documented address set."""
import ipaddress
import json
import os
import random

import common

V4MAX = 2 ** 32 - 1
V6MAX = 2 ** 128 - 1


def ip4(n):
    return str(ipaddress.IPv4Address(n & V4MAX))


def ip6(n):
    return str(ipaddress.IPv6Address(n & V6MAX))


def bytes_of(text):
    a = ipaddress.ip_address(text)
    return list(a.packed)


def spec(kind, fam, a="0.0.0.0", b=None, p=0, mask=None, okA=True, okB=True, okMask=True):
    za = bytes_of(a) if okA else [0] * (4 if fam == 4 else 16)
    return {"kind": kind, "fam": fam, "a": za, "b": bytes_of(b) if (b and okB) else za, "p": p,
            "mask": bytes_of(mask) if (mask and okMask) else [0, 0, 0, 0], "okA": okA, "okB": okB, "okMask": okMask}


def neighbours(fam, lo, hi, rng, extra=6):
    mx = V4MAX if fam == 4 else V6MAX
    pts = set()
    for x in (lo, hi):
        for d in (-2, -1, 0, 1, 2):
            if 0 <= x + d <= mx:
                pts.add(x + d)
    for _ in range(extra):
        pts.add(rng.randrange(lo, hi + 1))
        pts.add(rng.randrange(0, mx + 1))
    pts |= {0, mx}
    return sorted(pts)


def gen_cases(rng, full):
    cases = []   # (text, spec, probes[(text, raw16)], odd)

    def add(text, sp, probes, odd=False):
        cases.append((text, sp, probes, odd))

    def probes_for(fam, lo, hi, exhaustive=False):
        pts = list(range(max(0, lo - 2), min((V4MAX if fam == 4 else V6MAX), hi + 2) + 1)) if exhaustive else neighbours(fam, lo, hi, rng)
        out = []
        for x in pts:
            if fam == 4:
                out.append((ip4(x), False))
                if not exhaustive or rng.random() < 0.05:
                    out.append((ip4(x), True))                       # the same address in 16-byte form
                    out.append(("::ffff:" + ip4(x), True))
            else:
                out.append((ip6(x), True))
        if fam == 4:
            out += [("::1", True), ("2001:db8::1", True), (ip6(rng.randrange(V6MAX)), True)]
        else:
            out += [("192.0.2.1", False), ("255.255.255.255", True), ("0.0.0.0", False)]
        return out
    # single addresses
    for _ in range(6):
        x = rng.randrange(V4MAX)
        add(ip4(x), spec("single", 4, ip4(x)), probes_for(4, x, x))
        y = rng.randrange(V6MAX)
        add(ip6(y), spec("single", 6, ip6(y)), probes_for(6, y, y))
    for bad in ["192.0.2.", "256.1.1.1", "1.2.3", "2001:db8", "::g", "", "1.2.3.4.5", "1.2.3.4 ", "a.b.c.d"]:
        add(bad, spec("single", 4, okA=False), [("1.2.3.4", False)])
    # ranges: widths 1, 2, 3, 2^k +- 1, reversed, mixed family, malformed bounds
    for w in [0, 1, 2, 3, 255, 256, 257, 65535, 65536, 2 ** 24 + 1, V4MAX]:
        lo = rng.randrange(0, V4MAX - w + 1)
        add("%s-%s" % (ip4(lo), ip4(lo + w)), spec("range", 4, ip4(lo), ip4(lo + w)), probes_for(4, lo, lo + w, exhaustive=full and w <= 4096))
        if w > 0:
            add("%s-%s" % (ip4(lo + w), ip4(lo)), spec("range", 4, ip4(lo + w), ip4(lo)), [(ip4(lo), False)])
    for w in [0, 1, 2, 2 ** 64 - 1, 2 ** 64, 2 ** 64 + 1, 2 ** 100]:
        lo = rng.randrange(0, V6MAX - w + 1)
        add("%s-%s" % (ip6(lo), ip6(lo + w)), spec("range", 6, ip6(lo), ip6(lo + w)), probes_for(6, lo, lo + w))
        if w > 0:
            add("%s-%s" % (ip6(lo + w), ip6(lo)), spec("range", 6, ip6(lo + w), ip6(lo)), [(ip6(lo), True)])
    add("192.0.2.0-2001:db8::", spec("range", 4, "192.0.2.0", "2001:db8::"), [("192.0.2.5", False)])
    add("2001:db8::-192.0.2.10", spec("range", 6, "2001:db8::", "192.0.2.10"), [("192.0.2.5", False)])
    # mixed families in either order, with the IPv6 bound below / above the IPv4-mapped block
    for v6 in ["::", "::1", "::fffe:0:1", "::ffff:0:0:1", "1::", "ffff::"]:
        for v4 in ["0.0.0.0", "192.0.2.10", "255.255.255.255"]:
            add("%s-%s" % (v6, v4), spec("range", 6, v6, v4), [("1.2.3.4", False), ("::2", True), (v4, False)])
            add("%s-%s" % (v4, v6), spec("range", 4, v4, v6), [("1.2.3.4", False), ("::2", True), (v4, False)])
    add("192.0.2.-192.0.2.10", spec("range", 4, b="192.0.2.10", okA=False), [("192.0.2.5", False)])
    add("192.0.2.0-192.0.2.", spec("range", 4, "192.0.2.0", okB=False), [("192.0.2.5", False)])
    add("192.0.2.0-", spec("range", 4, "192.0.2.0", okB=False), [("192.0.2.0", False)])
    # CIDR: every prefix length, base addresses with host bits set
    for p in list(range(-1, 34)) + [99, 129]:
        base = rng.randrange(V4MAX)
        text = "%s/%d" % (ip4(base), p)
        sp = spec("cidr", 4, ip4(base), p=p)
        if 0 <= p <= 32:
            net = base & ~((1 << (32 - p)) - 1) & V4MAX
            bc = net | ((1 << (32 - p)) - 1)
            add(text, sp, probes_for(4, net, bc, exhaustive=full and p >= 20))
        else:
            add(text, sp, [(ip4(base), False)])
    for p in list(range(-1, 131)) + [999]:
        base = rng.randrange(V6MAX)
        text = "%s/%d" % (ip6(base), p)
        sp = spec("cidr", 6, ip6(base), p=p)
        if 0 <= p <= 128:
            net = base & ~((1 << (128 - p)) - 1) & V6MAX
            bc = net | ((1 << (128 - p)) - 1)
            add(text, sp, probes_for(6, net, bc, exhaustive=full and p >= 118))
        else:
            add(text, sp, [(ip6(base), True)])
    add("192.0.2.0/", spec("cidr", 4, "192.0.2.0", p=-1), [("192.0.2.1", False)])
    add("/24", spec("cidr", 4, okA=False, p=24), [("192.0.2.1", False)])
    add("192.0.2.0/ 24", spec("cidr", 4, "192.0.2.0", p=24), [("192.0.2.1", False)], odd=True)
    add("192.0.2.0/+24", spec("cidr", 4, "192.0.2.0", p=24), [("192.0.2.1", False)], odd=True)
    add("::ffff:192.0.2.0/120", spec("cidr", 6, "::ffff:192.0.2.0", p=120), [("192.0.2.1", False)], odd=True)
    add("fe80::1%eth0/64", spec("cidr", 6, "fe80::1", p=64), [("fe80::2", True)], odd=True)
    # netmasks: every contiguous mask, many non-contiguous ones, IPv6 base
    for p in range(0, 33):
        m = (V4MAX << (32 - p)) & V4MAX
        base = rng.randrange(V4MAX)
        net = base & m
        bc = net | (~m & V4MAX)
        add("%s/%s" % (ip4(base), ip4(m)), spec("mask", 4, ip4(base), mask=ip4(m)), probes_for(4, net, bc, exhaustive=full and p >= 22))
    seen = set()
    while len(seen) < (40 if not full else 200):
        m = rng.randrange(V4MAX)
        inv = (~m) & V4MAX
        if m in seen or (inv & (inv + 1)) == 0:
            continue
        seen.add(m)
        add("192.0.2.77/%s" % ip4(m), spec("mask", 4, "192.0.2.77", mask=ip4(m)), [("192.0.2.77", False)])
    # masks built from the octets a contiguity test looks at: every combination of {0, 1, 128, 254, 255} (625 masks; 5 of them
    # are contiguous) - leading zero octets, holes in any octet, trailing ones
    import itertools
    octs = [0, 1, 128, 254, 255]
    combos = [c for c in itertools.product(octs, repeat=4)]
    if not full:
        combos = [c for c in combos if c[0] == 0] + rng.sample([c for c in combos if c[0] != 0], 60)
    for c in combos:
        m = (c[0] << 24) | (c[1] << 16) | (c[2] << 8) | c[3]
        if m in seen:
            continue
        seen.add(m)
        add("10.20.30.40/%s" % ip4(m), spec("mask", 4, "10.20.30.40", mask=ip4(m)), [("10.20.30.40", False), ("10.21.30.40", False), ("9.20.0.1", False)])
    add("192.0.2.0/255.255.0.254", spec("mask", 4, "192.0.2.0", mask="255.255.0.254"), [("192.0.2.1", False)])
    add("2001:db8::/255.255.255.0", spec("mask", 6, "2001:db8::", mask="255.255.255.0"), [("2001:db8::1", True)])
    add("192.0.2.0/mask", spec("mask", 4, "192.0.2.0", okMask=False), [("192.0.2.1", False)])
    add("192.0.2.0/255.255.255.", spec("mask", 4, "192.0.2.0", okMask=False), [("192.0.2.1", False)])
    add("192.0.2.0/ffff::", spec("mask", 4, "192.0.2.0", mask="255.255.255.0"), [("192.0.2.1", False)], odd=True)
    return cases


def run(tier, seed, replay=None):
    rep = common.Report("C14", tier, seed, "model_checking")
    rng = random.Random(seed * 633910099 + 14)
    full = tier != "quick"
    with common.Scratch("c14-") as scratch:
        harness = common.build_harness(scratch)
        specdir = common.prepare_spec_dir(scratch)
        res = common.run_tlc(specdir, "MC_IpRange.tla", "MC_IpRange.cfg", workers=8, timeout=900)
        common.tlc_must_pass(res, "MC_IpRange")
        rep.add_tlc(res)
        if replay:
            cases = [tuple(c) for c in json.load(open(os.path.join(replay, "cases.json")))]
        else:
            cases = gen_cases(rng, full)
        sp = os.path.join(scratch, "ip.json")
        op = os.path.join(scratch, "ipout.json")
        with open(sp, "w") as f:
            json.dump([{"text": t, "probes": [p for p, _ in pr], "raw16": [r for _, r in pr]} for t, s, pr, odd in cases], f)
        p = common.run_harness(harness, ["iprange", "-script", sp, "-out", op], timeout=1200)
        if p.returncode != 0:
            raise common.CheckError("iprange harness failed: " + p.stderr[-1500:])
        results = json.load(open(op))
        lines = []
        for (text, s, pr, odd), r in zip(cases, results):
            if r["panic"]:
                rep.violation("panic:ParseIPRange", "ParseIPRange/Contains panicked for %r" % text, {"cases.json": [[text, s, pr, odd]]})
                continue
            probes = []
            for (ptxt, raw16), isin in zip(pr, r["in"]):
                b = bytes_of(ptxt)
                if raw16 and len(b) == 4:
                    b = [0] * 10 + [255, 255] + b
                probes.append({"ip": b, "isin": isin, "text": ptxt})
            lines.append({"ev": "Range", "text": text, "spec": s, "accepted": r["accepted"], "odd": odd, "probes": probes})
        # validate in batches; a rejected line is reported and skipped
        todo = lines
        nprobe = sum(len(x["probes"]) for x in lines)
        while todo:
            tp = os.path.join(specdir, "trace.ndjson")
            common.write_ndjson(tp, todo)
            v = common.validate_trace(specdir, "IpRangeTrace.tla", "TR_IpRange.cfg", tp, len(todo), timeout=3000)
            rep.add_tlc(v.res)
            if v.accepted:
                rep.cov["traces_validated_against_impl"] += len(todo)
                break
            bad = todo[v.hwm]
            rep.cov["traces_validated_against_impl"] += v.hwm
            kind = bad["spec"]["kind"]
            idx = [i for i, c in enumerate(cases) if c[0] == bad["text"]]
            rep.violation("Range:%s:%s" % (kind, "accepted" if bad["accepted"] else "rejected"),
                          "TLC rejects the observation for range text %r: accepted=%s, spec=%s\nprobes (first 12): %s" % (
                              bad["text"], bad["accepted"], json.dumps(bad["spec"]), json.dumps(bad["probes"][:12])),
                          {"cases.json": [list(cases[i]) for i in idx[:1]], "line.json": bad})
            todo = todo[v.hwm + 1:]
            if len(rep.violations) >= 10:
                break
        rep.cov["evaluations"] = nprobe
        rep.cov["distinct_nontrivial"] = len([x for x in lines if x["accepted"] and not x["odd"]])
        rep.cov["rule"] = ("specifications generated from the documented grammar and its near misses (every prefix 0..32 / 0..128 and out of range, "
                           "every contiguous and many non-contiguous masks, host bits set, ranges of width 1,2,3,2^k+-1, reversed, mixed family, "
                           "malformed parts) x probes (borders +-2, network/broadcast, random inside/outside, 4- and 16-byte forms; thorough: "
                           "every address of blocks /20 and smaller); distinct_nontrivial = accepted non-odd specifications judged by TLC")
        rep.cov["exhaustive"] = False
        rep.cov["samples"] = [{"text": lines[0]["text"], "accepted": lines[0]["accepted"], "probes": lines[0]["probes"][:3]},
                              {"text": lines[40]["text"], "accepted": lines[40]["accepted"]}]
    return rep.finish()
