"""C04 no client input and no on-disk content can crash the server."""
import json
import os
import random
import struct

import binsrv
import common
import srv
from props import c20

S = 2048
U32 = {"u32max": 2 ** 32 - 1}
KEY = "00112233445566778899aabbccddeeff"


def num(x):
    if isinstance(x, int):
        return x
    return U32[x] if x in U32 else int(x)


def build_sfo(c):
    if c["what"] == "sfo-short":
        return (b"\x00PSF\x01\x01\x00\x00" + struct.pack("<III", 36, 48, 1) + b"\x00" * 40)[:c["len"]]
    title = ("BLES01234" * 5)[:c["titlelen"]].encode() + b"\x00"
    declared = num(c["entries"])
    real = min(declared, 3)
    ents = []
    keys = b""
    data = b""
    names = ["CATEGORY", "TITLE_ID", "VERSION"][:real] if real != 1 else ["TITLE_ID"]
    for nm in names:
        val = title if nm == "TITLE_ID" else b"DG\x00"
        dl = len(val)
        if nm == "TITLE_ID" and c["datalen"] != "ok":
            dl = num(c["datalen"])
        koff = len(keys) if c["keyoff"] == "ok" or nm != "TITLE_ID" else 0xFFF0
        ents.append(struct.pack("<HHIII", koff & 0xFFFF, 0x0204, dl & 0xFFFFFFFF, 16, len(data)))
        keys += nm.encode() + b"\x00"
        data += val.ljust(16, b"\x00")
    while len(keys) % 4:
        keys += b"\x00"
    key_start = 20 + 16 * real
    hdr = (b"\x00PSF" if c["magic"] == "ok" else b"XPSF") + b"\x01\x01\x00\x00" + struct.pack("<III", key_start, key_start + len(keys), declared)
    return hdr + b"".join(ents) + keys + data


def world_for(case, i, rng):
    """(world, cli) for one BadContent case: a served tree holding the hostile content and the requests that touch it."""
    t = 1490000000
    w = case["what"]
    nodes = [srv.dnode(["ok"], t), srv.fnode(["ok", "plain.bin"], 3000, cid="okplain", mtime=t + 1)]
    reqs = []
    views = []
    cli = None
    if w in ("sfo", "sfo-short"):
        sfo = srv.fnode(["game", "PS3_GAME", "PARAM.SFO"], 0, cid="badsfo%d" % i, mtime=t + 2)
        raw = build_sfo(case)
        sfo["raw"], sfo["size"], sfo["vsize"] = raw.hex(), srv.pos(len(raw)), srv.pos(len(raw))
        if not raw:
            sfo["cid"] = sfo["vcid"] = ""
        nodes += [srv.dnode(["game"], t + 3), srv.dnode(["game", "PS3_GAME"], t + 4), sfo, srv.fnode(["game", "PS3_GAME", "EBOOT.BIN"], 5000, cid="eboot%d" % i, mtime=t + 5)]
        views = [{"vk": "ps3", "p": ["game"]}, {"vk": "dvd", "p": ["game"]}]
        reqs = [{"op": "OPEN_FILE", "path": "/***PS3***/game"}, {"op": "STAT_FILE", "path": "/game/PS3_GAME/PARAM.SFO"}, {"op": "OPEN_DIR", "path": "/***PS3***/game"},
                {"op": "OPEN_FILE", "path": "/***DVD***/game"}, {"op": "READ_FILE", "limit": 4096, "off": 2048}, {"op": "OPEN_FILE", "path": "/***PS3***/game"}]
        cli = ("make-iso", "game")
    elif w in ("regions", "regions-short", "key", "3k3y"):
        img = srv.fnode(["PS3ISO", "bad.iso"], 8 * S, cid="badimg%d" % i, mtime=t + 2)
        spec = {"kind": "redump", "key": KEY, "regions": [[0, 2], [4, 8]], "sectors": 8, "extraLen": 0, "plainName": "badplain%d" % i}
        keytxt = KEY
        if w == "regions":
            cnt = num(case["count"])
            regs = {"ok": [[0, 2], [4, 6], [7, 8]], "unordered": [[0, 4], [2, 3], [5, 8]], "endBeforeStart": [[0, 2], [5, 4], [6, 8]],
                    "startNotZero": [[1, 2], [4, 8]], "beyondFile": [[0, 2], [4, 6], [100, 2000]]}[case["shape"]]
            spec["regions"], spec["rawCount"] = regs, cnt
        elif w == "regions-short":
            spec = None
            img["size"] = img["vsize"] = srv.pos(case["len"])
            img["raw"] = (struct.pack(">II", 3, 0) + struct.pack(">IIIIII", 0, 2, 4, 6, 7, 8))[:case["len"]].hex()
            if case["len"] == 0:
                img["cid"] = img["vcid"] = ""
        elif w == "key":
            keytxt = {"empty": "", "short": KEY[:10], "odd": KEY[:31], "nonhex": "zz" + KEY[2:], "long": KEY * 20, "binary": "\x00\x01\x02\xff" * 8}[case["content"]]
        elif w == "3k3y":
            ln = case["len"]
            spec = {"kind": "3k3y-enc" if case["wm"] == "enc" else "3k3y-dec", "key": KEY, "regions": [[0, 1], [3, 5]], "sectors": ln // S, "extraLen": ln % S,
                    "plainName": "badplain%d" % i}
            img["size"] = img["vsize"] = srv.pos(ln)
            img = dict(img, p=["stuff", "bad.iso"])
        if spec:
            img["enc"] = spec
        img["any"] = True
        kn = srv.fnode(img["p"][:-1] + ["bad.dkey"], len(keytxt.encode("latin1")), cid="badkey%d" % i, mtime=t + 3)
        kn["raw"] = keytxt.encode("latin1").hex()
        if not keytxt:
            kn["cid"] = kn["vcid"] = ""
        nodes += [srv.dnode(img["p"][:-1], t + 4), img] + ([kn] if w != "3k3y" else [])
        pth = "/" + "/".join(img["p"])
        reqs = [{"op": "OPEN_FILE", "path": pth}, {"op": "STAT_FILE", "path": pth}, {"op": "OPEN_FILE", "path": "/ok/plain.bin"}, {"op": "READ_FILE", "limit": 100, "off": 0},
                {"op": "OPEN_FILE", "path": pth}]
        cli = ("decrypt-3k3y" if w == "3k3y" else "decrypt-redump", img["p"])
    elif w == "names":
        k = case["kind"]
        d = ["odd"]
        nodes.append(srv.dnode(d, t + 2))
        if k == "len255":
            names = ["N" * 255, "d" * 255]
        elif k == "len200":
            names = ["x" * 200 + ".bin", "y" * 111, "z" * 110]
        elif k == "nonutf8":
            names = ["\udcff\udcfe.bin", "caf\udce9.iso"]
        elif k == "collide":
            names = ["Readme.TXT", "README.txt", "a b", "a_b", "a?b"]
        elif k == "controlchars":
            names = ["tab\there", "new\nline", "bell\x07"]
        elif k == "many1000":
            names = ["f%04d" % j for j in range(1000)]
        elif k == "links":
            # links to nothing, to themselves, to each other, out of the root, to a directory above
            names = ["plain.bin"]
            for nm, tgt in [("dangling", ["odd", "nothing-here"]), ("selfloop", ["odd", "selfloop"]), ("ping", ["odd", "pong"]), ("pong", ["odd", "ping"]),
                            ("up", []), ("tofile", ["ok", "plain.bin"]), ("deepdangling", ["odd", "no", "such", "dir", "x"])]:
                nodes.append(srv.lnode(d + [nm], tgt))
        else:
            names = []
        for j, nm in enumerate(names):
            if j % 2 == 1 and k in ("len255", "collide"):
                nodes.append(srv.dnode(d + [nm], t + 10 + j))
            else:
                nodes.append(srv.fnode(d + [nm], 10 + j % 7, cid="odd%d_%d" % (i, j % 7), mtime=t + 10 + j))
        if k == "deep30":
            p = list(d)
            for j in range(30):
                p = p + ["L%d" % j]
                nodes.append(srv.dnode(p, t + 10 + j))
            nodes.append(srv.fnode(p + ["leaf.bin"], 5, cid="leaf%d" % i, mtime=t + 99))
        views = [{"vk": "dvd", "p": d}]
        reqs = [{"op": "OPEN_DIR", "path": "/odd"}, {"op": "READ_DIR"}, {"op": "OPEN_FILE", "path": "/***DVD***/odd"}, {"op": "READ_FILE", "limit": 65536, "off": 32768},
                {"op": "GET_DIR_SIZE", "path": "/odd"}, {"op": "OPEN_DIR", "path": "/odd"}, {"op": "READ_DIR_ENTRY_V2"}, {"op": "READ_DIR_ENTRY"}]
        if k == "links":
            reqs += [{"op": "READ_DIR_ENTRY"}] * 8 + [{"op": "OPEN_DIR", "path": "/odd"}] + [{"op": "READ_DIR_ENTRY_V2"}] * 9 + [{"op": "OPEN_DIR", "path": "/odd"}, {"op": "READ_DIR"}]
            for nm in ("dangling", "selfloop", "ping", "up", "deepdangling"):
                reqs += [{"op": "STAT_FILE", "path": "/odd/" + nm}, {"op": "OPEN_FILE", "path": "/odd/" + nm}, {"op": "OPEN_DIR", "path": "/odd/" + nm},
                         {"op": "GET_DIR_SIZE", "path": "/odd/" + nm}, {"op": "OPEN_FILE", "path": "/***DVD***/odd/" + nm}]
        cli = ("make-iso-plain", "odd")
    # hostile names must be expressible in the script: surrogate escapes stand for raw bytes
    return {"name": "bad-%d-%s" % (i, w), "aw": False, "nodes": nodes, "views": views, "conns": [{"id": 1, "reqs": reqs}], "probe": True}, cli


def memory_bound_case(rep, binary, proto_path, scratch):
    """READ_FILE announces and sends up to 2^31-1 bytes on one 16-byte request; on a host with little memory the server has to
    stream them, not gather them.  The binary runs with `ulimit -v` (2.5 GB of address space: the Go runtime itself starts with a little less); a client asks for 2 GiB - 1 of a
    sparse 3 GiB file and walks away after a part, another one must still be served."""
    import binsrv
    import time
    base = os.path.join(scratch, "membound")
    root = os.path.join(base, "root")
    os.makedirs(root)
    with open(os.path.join(root, "big.iso"), "wb") as f:
        f.truncate(3 * 1024 ** 3)
    open(os.path.join(root, "small.txt"), "w").write("hello")
    # a PARAM.SFO whose TITLE_ID declares 4 GiB of value, in a file that really is that long (sparse)
    import isotrees
    os.makedirs(os.path.join(root, "GAME", "PS3_GAME"))
    sfo = bytearray(bytes.fromhex(isotrees.param_sfo(["x"], "BLES01234", 0)["raw"]))
    sfo[20 + 4:20 + 8] = (0xFFFFFFFF).to_bytes(4, "little")         # DataLen of the first (only) index entry
    with open(os.path.join(root, "GAME", "PS3_GAME", "PARAM.SFO"), "wb") as f:
        f.write(bytes(sfo))
        f.truncate(3 * 1024 ** 3)
    pt = proto_path if isinstance(proto_path, binsrv.Proto) else binsrv.Proto(proto_path)
    cmd = "ulimit -v 2500000; exec %s server --root %s --listen-addr 127.0.0.1:0 --json-log" % (binary, root)
    s = binsrv.Server("/bin/sh", ["-c", cmd], cwd=base)
    try:
        if not s.addr:
            crashed, txt = s.crashed()
            raise common.CheckError("memory-bound server did not start (the Go runtime may need more address space): " + txt[-300:])
        g = binsrv.Client(s.addr)
        g.send(pt.encode("OPEN_FILE", path="/***PS3***/GAME"))
        g.recv_exact(pt.fixed_len("OPEN_FILE"), 30.0)
        g.close()
        got = b""
        try:
            a = binsrv.Client(s.addr)
            a.send(pt.encode("OPEN_FILE", path="/big.iso"))
            a.recv_exact(pt.fixed_len("OPEN_FILE"), 5.0)
            a.send(pt.encode("READ_FILE", limit=2 ** 31 - 1, off=0))
            got, st = a.recv_exact(4 + 1024 * 1024, 60.0)       # the count and the first MiB, then walk away
            a.close()
        except OSError:
            pass                                                # (refused: the server is gone already)
        time.sleep(0.5)
        alive = s.alive()
        served = False
        if alive:
            try:
                b = binsrv.Client(s.addr)
                b.send(pt.encode("STAT_FILE", path="/small.txt"))
                r, st2 = b.recv_exact(pt.fixed_len("STAT_FILE"), 5.0)
                served = st2 == "ok"
                b.close()
            except OSError:
                served = False
        rep.cov["evaluations"] += 1
        if not (alive and served):
            crashed, txt = s.crashed()
            first = [l for l in txt.splitlines() if l.startswith("fatal error:") or l.startswith("panic:") or "out of memory" in l]
            rep.violation("crash:membound:" + (first[0][:80] if first else "not serving"),
                          "the server (address space limited to 2.5 GB) does not survive OPEN_FILE of a ***PS3*** directory whose PARAM.SFO declares a 4 GiB value (sparse file) "
                          "followed by one READ_FILE of 2^31-1 bytes on a sparse 3 GiB file: "
                          "alive=%s, next client served=%s, first reply bytes=%d\n%s" % (alive, served, len(got), txt[-1500:]), {})
    finally:
        s.stop()


def mutate(rng, b):
    b = bytearray(b)
    for _ in range(rng.randrange(1, 6)):
        if not b:
            break
        k = rng.random()
        i = rng.randrange(len(b))
        if k < 0.4:
            b[i] ^= 1 << rng.randrange(8)
        elif k < 0.6:
            b[i:i] = bytes(rng.randrange(256) for _ in range(rng.randrange(1, 20)))
        elif k < 0.8:
            del b[i:i + rng.randrange(1, 20)]
        else:
            j = rng.randrange(len(b))
            b[i:i] = b[j:j + rng.randrange(1, 40)]
    return bytes(b)


def hostile_streams(rng, proto, nodes, n):
    """Byte streams: random, mutated valid sessions, structure-aware extremes."""
    out = []
    ops = list(proto.ops)
    paths = ["/" + "/".join(x["p"]) for x in nodes] + ["/", "/***DVD***/a", "/***PS3***/a", "/nope", "/a/../..", "/CLOSEFILE"]
    for _ in range(n):
        kind = rng.random()
        if kind < 0.15:
            out.append(bytes(rng.randrange(256) for _ in range(rng.randrange(1, 400))))
            continue
        frames = b""
        for _ in range(rng.randrange(1, 12)):
            op = rng.choice(ops)
            o = proto.ops[op]
            args = {}
            for name, off, width in o["tail"]:
                if name != "len":
                    args[name] = rng.choice([0, 1, 2047, 2048, 65536, 2 ** 31 - 1, 2 ** 31, 2 ** 32 - 1, 2 ** 63, 2 ** 64 - 1, rng.randrange(0, 300000)]) % (256 ** width)
            if o["follow"] == "path":
                frames += proto.encode(op, path=rng.choice(paths), **args)
            elif o["follow"] == "payload":
                pl = bytes(rng.randrange(256) for _ in range(rng.choice([0, 1, 16, 17, 300, 70000])))
                if rng.random() < 0.3:
                    pl = proto.encode("STAT_FILE", path="/a")      # a payload shaped like a command
                frames += proto.encode(op, payload=pl, **args)
            else:
                frames += proto.encode(op, **args)
        if kind < 0.6:
            frames = mutate(rng, frames)
        elif kind < 0.75:
            # declared lengths far beyond what follows
            frames += proto.encode(rng.choice(["STAT_FILE", "OPEN_FILE", "MKDIR"]), path="/a", len=rng.choice([65535, 4096, 17]))
        elif kind < 0.85:
            frames += proto.encode("WRITE_FILE", payload=b"xyz", len=rng.choice([2 ** 32 - 1, 2 ** 31, 100000]))
        out.append(frames)
    return out


def run(tier, seed, replay=None):
    rep = common.Report("C04", tier, seed, "exploration")
    rng = random.Random(seed * 1400305337 + 4)
    full = tier != "quick"
    with common.Scratch("c04-") as scratch:
        harness = common.build_harness(scratch)
        binary = common.build_binary(scratch)
        specdir = common.prepare_spec_dir(scratch)
        protop = srv.export_proto(specdir)
        proto = binsrv.Proto(protop)
        ctx = srv.SrvCtx(scratch, harness, specdir, protop)
        if replay:
            worlds = json.load(open(os.path.join(replay, "script.json")))["worlds"]
            srv.run_and_validate(ctx, worlds, rep)
            rep.cov["samples"] = [w["name"] for w in worlds]
            rep.cov["distinct_nontrivial"] = max(2, len(worlds))
            rep.cov["evaluations"] = max(1, rep.cov["evaluations"])
            return rep.finish()
        gen = common.run_tlc(specdir, "BadContent.tla", "GEN_BadContent.cfg", workers=1, timeout=300)
        common.tlc_must_pass(gen, "GEN_BadContent")
        rep.add_tlc(gen)
        bad = [json.loads(json.loads(x)) for x in gen.printed("BAD")]
        if not full:
            keep = [c for c in bad if c["what"] != "sfo"]
            sfo = [c for c in bad if c["what"] == "sfo"]
            bad = keep + rng.sample(sfo, 60) + [c for c in sfo if c["magic"] == "ok" and c["keyoff"] == "ok" and c["entries"] in ("1", "3") and c["datalen"] in ("ok", "0", "1")]
        worlds, clis = [], []
        for i, c in enumerate(bad):
            w, cli = world_for(c, i, rng)
            worlds.append(w)
            clis.append((w, cli, c))
        # read geometries around the end of decrypted and generated images whose size is not sector-aligned / is padded
        for i, extra in enumerate([0, 100, 2047]):
            t = 1490000000
            img = srv.fnode(["PS3ISO", "g.iso"], 4 * S + extra, cid="geo_enc%d" % i, mtime=t + 2)
            img["enc"] = {"kind": "redump", "key": KEY, "regions": [[0, 1], [3, 4]], "sectors": 4, "extraLen": extra, "plainName": "geo_plain%d" % i}
            img["vcid"] = "geo_plain%d" % i
            kn = srv.fnode(["PS3ISO", "g.dkey"], 32, cid="geo_key%d" % i, mtime=t + 3)
            kn["raw"] = KEY.encode().hex()
            nodes = [srv.dnode(["PS3ISO"], t), img, kn, srv.dnode(["d"], t + 4), srv.fnode(["d", "x.bin"], 2049, cid="geo_x%d" % i, mtime=t + 5)]
            size = 4 * S + extra
            conns = []
            for k, pth in enumerate(["/PS3ISO/g.iso", "/***DVD***/d"]):
                top = size if k == 0 else 131072
                reqs = [{"op": "OPEN_FILE", "path": pth}]
                for off in [0, 1, S - 1, top - 1, top, top + 1, top + 400, top + S - 1, top + S, 3 * S + 5, 10 ** 6, 2 ** 40,
                            2 ** 42 - 1, 2 ** 42, 2 ** 43 + 5, 2 ** 53 + 1, 2 ** 62 - 1]:
                    for lim in [1, 16, 512, 2049, 70000]:
                        reqs.append({"op": "READ_FILE", "limit": lim, "off": off})
                conns.append({"id": k + 1, "reqs": reqs})
                # transfers by the pooled 64 KiB buffer from far offsets: nothing to send, the connection ends - no crash
                for j, off in enumerate([2 ** 42 - 1, 2 ** 42 + 2048, 2 ** 52, 2 ** 62 - 1]):
                    conns.append({"id": 10 + 10 * k + j, "reqs": [{"op": "OPEN_FILE", "path": pth}, {"op": "READ_FILE_CRITICAL", "limit": 65536, "off": off}]})
                # offsets that are negative as a signed 64-bit number, limits up to 2^32-1: any answer or a closed connection - no crash
                for j, (off, lim) in enumerate([(2 ** 63, 1), (2 ** 63 + 5, 4096), (2 ** 64 - 1, 1), (2 ** 64 - 2048, 70000), (0, 2 ** 32 - 1), (5, 2 ** 31)]):
                    for op in ("READ_FILE", "READ_FILE_CRITICAL"):
                        conns.append({"id": 40 + 20 * k + 2 * j + (op == "READ_FILE"), "reqs": [{"op": "OPEN_FILE", "path": pth}, {"op": op, "limit": lim, "off": off}]})
            worlds.append({"name": "geometry-%d" % extra, "aw": False, "nodes": nodes, "views": [{"vk": "dvd", "p": ["d"]}], "conns": conns, "probe": True})
        # directories with long / odd names served as images themselves (the name goes into fixed-width volume identifiers)
        rnames = ["R" * 17, "R" * 33, "R" * 129, "R" * 255, "my game (EU) [v1.02] + dlc", "ゲームのディレクトリ名前です", "x" * 16 + "é"]
        t = 1490000100
        nodes, conns, views = [], [], []
        for k, rn in enumerate(rnames):
            nodes += [srv.dnode([rn], t + k), srv.fnode([rn, "a.bin"], 100 + k, cid="rootn%d" % k, mtime=t + 50 + k)]
            views.append({"vk": "dvd", "p": [rn]})
            conns.append({"id": k + 1, "reqs": [{"op": "OPEN_FILE", "path": "/***DVD***/" + rn}, {"op": "READ_FILE", "limit": 4096, "off": 32768},
                                                {"op": "OPEN_FILE", "path": "/***PS3***/" + rn}, {"op": "STAT_FILE", "path": "/" + rn}]})
        worlds.append({"name": "rootnames", "aw": False, "nodes": nodes, "views": views, "conns": conns, "probe": True})
        # the served root itself as an image, and odd spellings of the virtual prefixes
        nodes = [srv.dnode(["g"], t), srv.fnode(["g", "a.bin"], 100, cid="vr_a", mtime=t + 1), srv.fnode(["top.bin"], 5, cid="vr_top", mtime=t + 2)]
        conns = []
        for k, pth in enumerate(["/***DVD***/", "/***DVD***", "/***PS3***/", "/***PS3***", "/***DVD***/.", "/***DVD***//g", "/***DVD***/g/", "/***DVD***/g/.",
                                 "/***DVD***/../g", "/***DVD***/g/..", "/***DVD***/***DVD***/g", "/***PS3***/***DVD***/g", "***DVD***/g", "/***dvd***/g"]):
            conns.append({"id": k + 1, "reqs": [{"op": "OPEN_FILE", "path": pth}, {"op": "READ_FILE", "limit": 2048, "off": 32768}, {"op": "STAT_FILE", "path": pth},
                                                {"op": "OPEN_DIR", "path": pth}, {"op": "READ_DIR"}, {"op": "GET_DIR_SIZE", "path": pth}]})
        worlds.append({"name": "virtual-root", "aw": False, "nodes": nodes, "views": [{"vk": "dvd", "p": []}, {"vk": "dvd", "p": ["g"]}, {"vk": "ps3", "p": []}],
                       "conns": conns, "probe": True})
        # a burst of connections while the process is momentarily out of descriptors: accept fails temporarily, the server goes on
        nodes = srv.basic_world(rng)
        conns = [{"id": k + 1, "reqs": [{"op": "STAT_FILE", "path": "/a"}, {"op": "OPEN_DIR", "path": "/a"}, {"op": "READ_DIR"}]} for k in range(12)]
        worlds.append({"name": "accept-faults", "aw": False, "nodes": nodes, "views": [{"vk": "dvd", "p": ["a"]}], "conns": conns, "probe": True,
                       "acceptFaultEvery": 2, "schedule": "rr"})
        # hostile byte streams against a normal tree
        nstream = 300 if not full else 6000
        for i in range(0, nstream, 10):
            nodes = srv.basic_world(rng)
            streams = hostile_streams(rng, proto, nodes, 10)
            conns = [{"id": k + 1, "reqs": [{"stream": s.hex()}]} for k, s in enumerate(streams)]
            worlds.append({"name": "streams-%d" % i, "aw": rng.random() < 0.7, "nodes": nodes, "views": [{"vk": "dvd", "p": ["a"]}], "conns": conns,
                           "probe": True, "quiesce": True, "readChunk": rng.choice([0, 0, 5, 64])})
        B = 400
        for b in range(0, len(worlds), B):
            srv.run_and_validate(ctx, worlds[b:b + B], rep, max_rejections=10)
        # the same hostile content handed to the CLI tools: an error exit, never a crash
        ncli = 0
        for w, cli, c in (clis if full else rng.sample(clis, min(len(clis), 150))):
            if cli is None:
                continue
            ncli += 1
            base = os.path.join(scratch, "cli%d" % ncli)
            os.makedirs(base)
            nf = os.path.join(base, "nodes.json")
            json.dump(w["nodes"], open(nf, "w"))
            p = common.run_harness(harness, ["mkworld", "-nodes", nf, "-base", base], timeout=120)
            if p.returncode != 0:
                raise common.CheckError("mkworld failed: " + p.stderr[-400:])
            root = os.path.join(base, "g")
            out = os.path.join(base, "out.bin")
            if cli[0] == "make-iso":
                args = ["make-iso", os.path.join(root, cli[1]), out, "--ps3-mode"]
            elif cli[0] == "make-iso-plain":
                args = ["make-iso", os.path.join(root, cli[1]), out]
            elif cli[0] == "decrypt-redump":
                pth = os.path.join(root, *cli[1])
                args = ["decrypt", "redump", pth, pth[:-4] + ".dkey", out]
            else:
                args = ["decrypt", "3k3y", os.path.join(root, *cli[1]), out]
            ex, so, se = c20.run_cli(binary, args, base, timeout=120)
            rep.cov["evaluations"] += 1
            if ex == "crash":
                first = [l for l in se.splitlines() if l.startswith("panic:") or l.startswith("fatal error:")]
                rep.violation("cli-crash:%s:%s" % (cli[0], (first[0] if first else "?")[:80]),
                              "the CLI crashed (%s) on hostile content %s\n%s" % (" ".join(args[:2]), json.dumps(c), se[-1200:]),
                              {"case.json": c, "nodes.json": w["nodes"], "args.json": args})
        # the real binary with bounded address space (a small NAS): one request for a huge ordinary read must not kill it
        memory_bound_case(rep, binary, proto, scratch)
        rep.cov["rule"] = ("structured hostile content enumerated by TLC (BadContent.tla: %d cases of PARAM.SFO, region tables, key files, 3k3y area lengths, odd names / "
                           "tree shapes) served by the real server in a worker process and given to the real CLI; %d hostile byte streams (random, mutated valid sessions, "
                           "extreme declared lengths, payloads shaped like commands), re-framed by the protocol tables and validated like any other trace; after "
                           "every world a fresh connection must be served; distinct_nontrivial = worlds accepted" % (len(bad), nstream))
        rep.cov["distinct_nontrivial"] = rep.cov["traces_validated_against_impl"]
        rep.cov["cli_runs"] = ncli
        rep.cov["samples"] = [bad[0], {"stream": worlds[-1]["conns"][0]["reqs"][0]["stream"][:120]}]
        rep.assumptions += ["'all byte streams' is sampled, not enumerated: TLC supplies the structured cases and judges every trace, a seeded mutation driver supplies volume",
                            "a crash = death of the process hosting the real server code (worker process), or CLI exit by panic/signal"]
    return rep.finish()
