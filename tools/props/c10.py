"""C10 on-the-fly decryption equals the reference plaintext for any access pattern."""
import json
import os
import random

import common
import srv

S = 2048
KEY = "00112233445566778899aabbccddeeff"


def rand_key(rng):
    return "".join("%02x" % rng.randrange(256) for _ in range(16))


def ops_for(rng, sectors, extra, regions, full, nseq=25):
    size = sectors * S + extra
    ops = []
    bounds = sorted({0, 8 + 8 * len(regions), 0xF70, 0x1070, size} | {s * S for s in range(sectors + 1)}
                    | {r[0] * S for r in regions if r[0] * S <= size} | {r[1] * S for r in regions if r[1] * S <= size})
    lens = [1, 15, 16, 17, 2047, 2048, 2049, 4097]
    pts = sorted({b + d for b in bounds for d in (-1, 0, 1) if 0 <= b + d <= size + 1})
    grid = [(o, n) for o in pts for n in lens]
    if not full:
        grid = rng.sample(grid, min(len(grid), 60))
    rng.shuffle(grid)      # positional reads go backwards as well as forwards
    for o, n in grid:
        ops.append({"op": "readat", "off": o, "n": n})
    for _ in range(nseq):
        o = rng.choice(pts)
        ops.append(rng.choice([{"op": "seek", "off": o, "whence": 0}, {"op": "seek", "off": o - size, "whence": 2},
                               {"op": "seek", "off": rng.choice([-2049, -17, -1, 0, 1, 15, 2048]), "whence": 1}]))
        if rng.random() < 0.5:      # a positional read in between must leave the cursor alone (inside, at and past the end, empty)
            ops.append({"op": "readat", "off": rng.choice(pts + [size, size + 1, size + 5000]), "n": rng.choice([0, 1, 2048, 5000])})
        ops.append({"op": "read", "n": rng.choice(lens + [512, 3 * S, 70000])})
        if rng.random() < 0.4:
            ops.append({"op": "read", "n": rng.choice(lens)})
    ops += [{"op": "seek", "off": 0, "whence": 0}] + [{"op": "read", "n": 512}] * 6     # the server's own access pattern (512-byte buffer reads)
    ops += [{"op": "seek", "off": 0, "whence": 2}, {"op": "read", "n": 16}]
    # the underlying file ends early (half of what the view asks for, then io.EOF or an error) during some calls
    for o in ops:
        if o["op"] in ("read", "readat") and o.get("n", 0) > 1 and rng.random() < 0.12:
            o["under"] = rng.choice(["eof", "err"])
    return ops


def run(tier, seed, replay=None):
    rep = common.Report("C10", tier, seed, "model_checking")
    rng = random.Random(seed * 472882027 + 10)
    full = tier != "quick"
    with common.Scratch("c10-") as scratch:
        harness = common.build_harness(scratch)
        specdir = common.prepare_spec_dir(scratch)
        ctx = srv.SrvCtx(scratch, harness, specdir, None, sub="enc", key="cases", start_ev="EncOpen")
        mod, cfg = "EncIsoTrace.tla", "TR_EncIso.cfg"
        if replay:
            cases = json.load(open(os.path.join(replay, "script.json")))["cases"]
            srv.run_and_validate(ctx, cases, rep, module=mod, cfg=cfg)
            rep.cov["samples"] = [c["name"] for c in cases]
            return rep.finish()
        # design level: region-table semantics, exhaustive over <= 3 regions on 7 sectors
        res = common.run_tlc(specdir, "MC_EncryptedIso.tla", "MC_EncryptedIso.cfg", workers=8, timeout=900)
        common.tlc_must_pass(res, "MC_EncryptedIso")
        rep.add_tlc(res)
        gen = common.run_tlc(specdir, "MC_EncryptedIso.tla", "GEN_EncryptedIso.cfg", workers=1, timeout=900)
        common.tlc_must_pass(gen, "GEN_EncryptedIso")
        rep.add_tlc(gen)
        tables = [json.loads(json.loads(x)) for x in gen.printed("TABLE")]
        valid = [t for t in tables if t["valid"]]
        invalid = [t for t in tables if not t["valid"]]
        nv, ni = (40, 60) if not full else (600, 1500)
        pick = rng.sample(valid, min(nv, len(valid))) + rng.sample(invalid, min(ni, len(invalid)))
        cases = []
        for i, t in enumerate(pick):
            regions = [list(r) for r in t["regions"]]
            sectors = 6
            extra = rng.choice([0, 0, 1, 777])
            c = {"name": "tbl%d" % i, "spec": {"kind": "redump", "key": rand_key(rng), "regions": regions, "sectors": sectors, "extraLen": extra},
                 "clear": rng.random() < 0.5, "cuts": [8 + 8 * len(regions), 0xF70, 0x1070],
                 "cut": rng.choice([[], [], [1], [15, 16, 17], [2047, 1, 2049], [512]])}
            c["ops"] = ops_for(rng, sectors, extra, regions, full and i < 60, nseq=12) if t["valid"] else [{"op": "read", "n": 16}]
            cases.append(c)
        # real-size shapes: many regions, regions from sector 1, to the last sector, beyond the file; malformed counts
        shapes = []
        many = [[0, 1]] + [[3 * k, 3 * k + 1] for k in range(1, 255)]      # (bounds are first / last sector: one encrypted sector between neighbours)
        shapes.append(("r255", many, 770, None))
        shapes.append(("from1", [[0, 1], [3, 5], [9, 10]], 12, None))
        shapes.append(("tolast", [[0, 2], [4, 6], [11, 12]], 12, None))
        shapes.append(("beyond", [[0, 2], [4, 6], [20, 30]], 8, None))
        shapes.append(("adjacent", [[0, 2], [3, 4], [6, 8]], 10, None))       # nothing encrypted between the first two
        shapes.append(("touching", [[0, 2], [2, 4], [6, 8]], 10, None))       # sector 2 claimed twice: not a table
        shapes.append(("single", [[0, 0], [2, 2], [5, 9]], 10, None))         # regions of one sector
        # bounds that do not fit a signed 32-bit sector number (the table holds unsigned 32-bit values): everything after sector 2 is encrypted
        shapes.append(("beyond31", [[0, 2], [2 ** 31, 2 ** 31 + 5]], 8, None))
        shapes.append(("beyond32", [[0, 2], [4, 5], [2 ** 32 - 2, 2 ** 32 - 1]], 8, None))
        shapes.append(("count0", [], 4, 0))
        shapes.append(("count1", [[0, 4]], 4, None))
        shapes.append(("count256", [[0, 1]] + [[3 * k, 3 * k + 1] for k in range(1, 256)], 780, None))
        shapes.append(("countlie3", [[0, 1], [3, 4]], 6, 3))
        shapes.append(("counthuge", [[0, 1], [3, 4]], 6, 2 ** 32 - 1))
        shapes.append(("count70000", [[0, 1], [3, 4]], 6, 70000))
        # an image that ends inside a sector of an encrypted region: the announced size is the stored size, all of it is served
        shapes.append(("tailenc", [[0, 2], [4, 5]], 3, None))
        shapes.append(("tailenc1", [[0, 1], [9, 10]], 5, None))
        for name, regions, sectors, rawcount in shapes:
            for clear in (False, True):
                spec = {"kind": "redump", "key": rand_key(rng), "regions": regions, "sectors": sectors, "extraLen": (100 if name == "tailenc" else 2047) if name.startswith("tailenc") else 0}
                if rawcount is not None:
                    spec["rawCount"] = rawcount
                c = {"name": "%s-%s" % (name, "clear" if clear else "keep"), "spec": spec, "clear": clear,
                     "cuts": [8 + 8 * len(regions), 0xF70, 0x1070], "cut": rng.choice([[], [3, 2048, 5]])}
                c["ops"] = ops_for(rng, min(sectors, 14), spec["extraLen"], regions[:6], False, nseq=15)
                cases.append(c)
        # 3k3y views: masking of [0xF70, 0x1070) over the decrypting view and over an already decrypted image
        for wrap, kind in (("over-enc", "3k3y-enc"), ("over-raw", "3k3y-dec")):
            for clear in (False, True):
                for regions in ([[0, 3], [5, 7], [9, 10]], [[0, 1], [3, 7], [9, 10]]):    # second: the tail of the 3k3y area lies in an encrypted sector
                    c = {"name": "3k3y-%s-%s-%d" % (wrap, clear, regions[0][1]), "spec": {"kind": kind, "key": rand_key(rng), "regions": regions, "sectors": 10, "extraLen": 0},
                         "clear": clear and wrap == "over-enc", "wrap3k3y": wrap, "cuts": [8 + 8 * len(regions), 0xF70, 0x1070], "cut": []}
                    ops = []
                    for o in [0xF6F, 0xF70, 0xF71, 0xF80, 0x106F, 0x1070, 0x1071, 0x800, 0x1000, 0]:
                        for n in [1, 16, 255, 256, 257, 2048, 5000]:
                            ops.append({"op": "readat", "off": o, "n": n})
                            ops += [{"op": "seek", "off": o, "whence": 0}, {"op": "read", "n": n}]
                    c["ops"] = ops
                    cases.append(c)
        srv.run_and_validate(ctx, cases, rep, module=mod, cfg=cfg, max_rejections=16)
        rep.cov["rule"] = ("region tables: TLC-enumerated valid and invalid tables (<= 3 regions over 6 sectors, sampled), 255-region, "
                           "regions from sector 1 / to the last sector / beyond the file / adjacent, malformed counts; random keys; "
                           "ReadAt at region/sector/header/3k3y boundaries +-1 x lengths {1,15,16,17,2047,2048,2049,4097}, Seek/Read "
                           "sequences, underlying reads cut at {1; 15,16,17; 2047,1,2049; 512}; header clearing on/off; "
                           "distinct_nontrivial = cases accepted")
        rep.cov["distinct_nontrivial"] = rep.cov["traces_validated_against_impl"]
        rep.cov["samples"] = [{"case": cases[0]["name"], "regions": cases[0]["spec"]["regions"], "ops": cases[0]["ops"][:3]}]
        rep.assumptions += ["reference cipher: crypto/aes + hand-written CBC, verified against NIST SP 800-38A F.2.1 at harness start",
                            "region bounds are first and last sector, both inclusive (the format; the image generator of this project writes them so)"]
    return rep.finish()
