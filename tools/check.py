#!/usr/bin/env python3
"""check.py <property> --tier quick|thorough [--replay <dir>]

Exit 0: the property held on everything explored (KNOWN-FINDING lines possible).
Exit 1: a line `VIOLATION property=<id> replay=<path>` was printed.
Exit 2: the machinery itself failed (build, TLC crash, timeout); never a verdict.
"""
import argparse
import importlib
import os
import sys
import traceback

HERE = os.path.dirname(os.path.abspath(__file__))
sys.path.insert(0, os.path.join(HERE, "lib"))
sys.path.insert(0, HERE)

import common  # noqa: E402


def main():
    ap = argparse.ArgumentParser()
    ap.add_argument("prop")
    ap.add_argument("--tier", default=os.environ.get("VERIF_TIER", "quick"), choices=["quick", "thorough"])
    ap.add_argument("--replay", default=None)
    a = ap.parse_args()
    prop = a.prop.upper()
    try:
        mod = importlib.import_module("props." + prop.lower())
    except ImportError as e:
        print("no check for %s: %s" % (prop, e), file=sys.stderr)
        return common.EXIT_ERROR
    seed = common.seed_from_env()
    try:
        return mod.run(a.tier, seed, a.replay)
    except common.CheckError as e:
        print("CHECK-ERROR %s: %s" % (prop, e), file=sys.stderr)
        return common.EXIT_ERROR
    except Exception:
        traceback.print_exc()
        print("CHECK-ERROR %s: internal error" % prop, file=sys.stderr)
        return common.EXIT_ERROR


if __name__ == "__main__":
    sys.exit(main())
