#!/usr/bin/env python3
"""Offline setup: verify the tools the checks need and that every TLA+ module parses.

Builds nothing from /repo (every check rebuilds the harness from /repo's working tree itself)."""
import os
import shutil
import subprocess
import sys
import tempfile

HERE = os.path.dirname(os.path.abspath(__file__))
sys.path.insert(0, os.path.join(HERE, "lib"))
import common  # noqa: E402

MODULES = ["ExportProto.tla", "MC_Ps3NetSrv.tla", "Ps3NetSrvTrace.tla", "IsoCursorTrace.tla", "MC_PathRes.tla"]


def main():
    for tool in ("java", "go", "python3"):
        if shutil.which(tool) is None:
            print("missing tool:", tool)
            return 2
    if not os.path.exists("/opt/veriftools/tla/tla2tools.jar"):
        print("missing tla2tools.jar")
        return 2
    d = tempfile.mkdtemp(prefix="verif-setup-")
    try:
        spec = common.prepare_spec_dir(d)
        mods = sorted(f for f in os.listdir(spec) if f.endswith(".tla"))
        bad = 0
        for m in mods:
            p = subprocess.run(["java", "-Djava.io.tmpdir=" + d, "-cp", common.TLA_JAR, "tla2sany.SANY", m], cwd=spec, stdout=subprocess.PIPE,
                               stderr=subprocess.STDOUT, text=True, timeout=300)
            ok = p.returncode == 0 and "*** Errors" not in p.stdout and "Fatal errors" not in p.stdout
            print(("ok   " if ok else "FAIL ") + m)
            if not ok:
                print(p.stdout[-1500:])
                bad += 1
        os.makedirs(common.EVIDENCE, exist_ok=True)
        return 1 if bad else 0
    finally:
        shutil.rmtree(d, ignore_errors=True)


if __name__ == "__main__":
    sys.exit(main())
